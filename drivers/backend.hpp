// Backend selection shared by the instantiation drivers (see core.cpp for the switches).
#pragma once
#define RLBOX_SINGLE_THREADED_INVOCATIONS

#ifdef VB_TRANSITIONS
void vb_hook_in(int kind, const char* name, void* ptr, void* state);
void vb_hook_out(int kind, const char* name, void* ptr, void* state);
#  define RLBOX_TRANSITION_ACTION_IN(k, n, p, s) vb_hook_in((int)(k), (n), (p), (s))
#  define RLBOX_TRANSITION_ACTION_OUT(k, n, p, s) vb_hook_out((int)(k), (n), (p), (s))
#  define RLBOX_MEASURE_TRANSITION_TIMES
#endif

#if defined(VB_NOOP)
#  ifndef VB_BYNAME
#    define RLBOX_USE_STATIC_CALLS() rlbox_noop_sandbox_lookup_symbol
#  endif
#  include "rlbox.hpp"
#  include "rlbox_noop_sandbox.hpp"
using SBX = rlbox::rlbox_noop_sandbox;
#  ifdef RLBOX_EMBEDDER_PROVIDES_TLS_STATIC_VARIABLES
RLBOX_NOOP_SANDBOX_STATIC_VARIABLES();
#  endif
#elif defined(VB_DYLIB)
#  include "rlbox.hpp"
#  include "rlbox_dylib_sandbox.hpp"
using SBX = rlbox::rlbox_dylib_sandbox;
#  ifdef RLBOX_EMBEDDER_PROVIDES_TLS_STATIC_VARIABLES
RLBOX_DYLIB_SANDBOX_STATIC_VARIABLES();
#  endif
#else
#  ifndef VB_BYNAME
#    define RLBOX_USE_STATIC_CALLS() vb_model_lookup
#    define vb_model_lookup(f) reinterpret_cast<void*>(&f)
#  endif
#  include "model32.hpp"
#  include "rlbox.hpp"
#  ifdef VB_GRANT
#    define VB_G true
#  else
#    define VB_G false
#  endif
#  ifdef VB_INTERNAL
#    define VB_I true
#  else
#    define VB_I false
#  endif
using SBX = rlbox::rlbox_model32_sandbox<0, VB_G, VB_I>;
#endif

