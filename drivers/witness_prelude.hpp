// Prelude for compiler-judged witness corpora (never linked or run).
// Each witness N uses its own sandbox type rlbox_model32_sandbox<N> so that every template
// instantiation is unique to it (clang diagnoses a failing static_assert in a member once per instantiation).
#define RLBOX_SINGLE_THREADED_INVOCATIONS
#define RLBOX_USE_STATIC_CALLS() vb_model_lookup
#define vb_model_lookup(f) reinterpret_cast<void*>(&f)
#include "model32.hpp"
#include "rlbox.hpp"
#include "rlbox_noop_sandbox.hpp"
#include <memory>
#include <string>
#include <type_traits>
using namespace rlbox;

enum VbEnum { VbE0, VbE1 };
struct VbW { int a; long b; char* c; int arr[2]; };
#define sandbox_fields_reflection_vbw_class_VbW(f, g, ...) \
  f(int, a, FIELD_NORMAL, ##__VA_ARGS__) g() f(long, b, FIELD_NORMAL, ##__VA_ARGS__) g() \
  f(char*, c, FIELD_NORMAL, ##__VA_ARGS__) g() f(int[2], arr, FIELD_NORMAL, ##__VA_ARGS__) g()
#define sandbox_fields_reflection_vbw_allClasses(f, ...) f(VbW, vbw, ##__VA_ARGS__)
rlbox_load_structs_from_library(vbw);

template<int N> using M = rlbox_model32_sandbox<N>;
template<int N> using SB = rlbox_sandbox<M<N>>;
template<class X> X& vb_lv();          // an lvalue of any type (declaration only)
template<class X> X vb_rv();           // a prvalue of any type
template<class X> void vb_take(X);     // a function taking X by value
template<class X> void vb_use(X&&);

// ---- oracle: is the type still wrapped?
template<class X> struct vb_strip { using type = X; };
template<class X> struct vb_strip<X*> : vb_strip<std::remove_cv_t<X>> {};
template<class X> using vb_strip_t = typename vb_strip<std::remove_cv_t<std::remove_reference_t<X>>>::type;
template<class X> struct vb_is_wrapped : std::false_type {};
template<class T, class S> struct vb_is_wrapped<tainted<T, S>> : std::true_type {};
template<class T, class S> struct vb_is_wrapped<tainted_volatile<T, S>> : std::true_type {};
template<class T, class S> struct vb_is_wrapped<tainted_opaque<T, S>> : std::true_type {};
template<class T, class S> struct vb_is_wrapped<sandbox_callback<T, S>> : std::true_type {};
template<class T, class S> struct vb_is_wrapped<app_pointer<T, S>> : std::true_type {};
template<> struct vb_is_wrapped<tainted_boolean_hint> : std::true_type {};
template<> struct vb_is_wrapped<tainted_int_hint> : std::true_type {};
template<> struct vb_is_wrapped<void> : std::true_type {};
template<class X> constexpr bool vb_still_wrapped = vb_is_wrapped<vb_strip_t<X>>::value;
template<class X> constexpr bool vb_is_bool = std::is_same_v<std::remove_cv_t<std::remove_reference_t<X>>, bool>;
template<class X> constexpr bool vb_is_hint = std::is_same_v<std::remove_cv_t<std::remove_reference_t<X>>, tainted_boolean_hint>;

extern int vb_gi; extern int* vb_gp; extern int* vb_gparr[4]; extern long vb_gl; extern char* vb_gcp;
int vb_fplain(int); long vb_fplain2(long); void vb_takes_ptr(int*); void vb_takes_fn(int (*)(int)); int* vb_returns_ptr(); void vb_takes_long(long); void vb_takes_s(VbW);
#include <array>
template<int N> using H = rlbox_modelhost_sandbox<N>;   // host-ABI backend model, one type per witness
extern std::array<int*, 4> vb_sarr; extern std::array<int (*)(int), 4> vb_sfarr; extern int (*vb_gfarr[4])(int);
