// Instantiation driver for C08: a generated family of registered structs (tools/gen_structs.py) pushed through every
// struct conversion path. Never linked or executed.
#include "backend.hpp"
#include <memory>
#include <string>
using namespace rlbox;
#include "gen_structs.hpp"
