// Instantiation driver for C11 / C12: a generated family of sandbox-function signatures and callbacks (tools/gen_sigs.py).
// Never linked or executed.
#include "backend.hpp"
#include <memory>
#include <string>
using namespace rlbox;
#include "gen_sigs.hpp"
