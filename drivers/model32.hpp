// Declaration-only foreign-ABI backend model used by the static analysis.
// It is never linked or run: only its *types* matter.  Guest ABI: ILP32-like
// (short=16, int=32, long=32, long long=64, pointer=uint32_t), so that guest and
// host representations differ and every conversion is structurally visible.
// Variants: Grant => `can_grant_deny_access`; Internal => `needs_internal_lookup_symbol`.
#pragma once
#include <cstddef>
#include <cstdint>
#include <cstdlib>
#include <type_traits>
#include <utility>
// the Grant variant reports creation success as a bool, the plain one returns void (both arms of create_sandbox)
#define VB_MODEL_BODY(SELF, GRANT) \
protected: \
  using Self = SELF; \
  std::conditional_t<GRANT, bool, void> impl_create_sandbox(); \
  void impl_destroy_sandbox(); \
  template<typename T> void* impl_get_unsandboxed_pointer(T_PointerType p) const; \
  template<typename T> T_PointerType impl_get_sandboxed_pointer(const void* p) const; \
  template<typename T> \
  static void* impl_get_unsandboxed_pointer_no_ctx(T_PointerType p, const void* ex, Self* (*f)(const void*)); \
  template<typename T> \
  static T_PointerType impl_get_sandboxed_pointer_no_ctx(const void* p, const void* ex, Self* (*f)(const void*)); \
  T_PointerType impl_malloc_in_sandbox(size_t size); \
  void impl_free_in_sandbox(T_PointerType); \
  static bool impl_is_in_same_sandbox(const void* p1, const void* p2); \
  bool impl_is_pointer_in_sandbox_memory(const void* p); \
  bool impl_is_pointer_in_app_memory(const void* p); \
  size_t impl_get_total_memory(); \
  void* impl_get_memory_location(); \
  void* impl_lookup_symbol(const char*); \
  void* impl_internal_lookup_symbol(const char*); \
  template<typename T, typename T_Converted, typename... T_Args> \
  auto impl_invoke_with_func_ptr(T_Converted* func_ptr, T_Args&&... params) -> decltype((*func_ptr)(params...)); \
  template<typename T_Ret, typename... T_Args> T_PointerType impl_register_callback(void*, void*); \
  static std::pair<Self*, void*> impl_get_executed_callback_sandbox_and_key(); \
  template<typename T_Ret, typename... T_Args> void impl_unregister_callback(void*); \
  template<typename T> T* impl_grant_access(T* src, size_t num, bool& success); \
  template<typename T> T* impl_deny_access(T* src, size_t num, bool& success);

namespace rlbox {
template<int Tag, bool Grant, bool Internal> struct model32_traits {};
template<int Tag, bool Internal> struct model32_traits<Tag, true, Internal> { using can_grant_deny_access = void; };

template<int Tag, bool Internal> struct model32_lookup {};
template<int Tag> struct model32_lookup<Tag, true> { using needs_internal_lookup_symbol = void; };

template<int Tag, bool Grant = false, bool Internal = false>
class rlbox_model32_sandbox : public model32_traits<Tag, Grant, Internal>, public model32_lookup<Tag, Internal>
{
public:
  using T_LongLongType = int64_t;
  using T_LongType = int32_t;
  using T_IntType = int32_t;
  using T_PointerType = uint32_t;
  using T_ShortType = int16_t;

#define VB_COMMA ,
VB_MODEL_BODY(rlbox_model32_sandbox<Tag VB_COMMA Grant VB_COMMA Internal>, Grant)
};

// Host-ABI sibling (the representation the bundled noop/dylib backends use: guest types = host types, pointers as void*),
// one type per witness tag; used by the compiler-judged corpora only.
template<int Tag>
class rlbox_modelhost_sandbox
{
public:
  using T_LongLongType = long long;
  using T_LongType = long;
  using T_IntType = int;
  using T_PointerType = void*;
  using T_ShortType = short;

VB_MODEL_BODY(rlbox_modelhost_sandbox<Tag>, false)
};
}
