// Instantiation driver for the static analysis. Never linked or executed:
// compiled with -fsyntax-only under the factdump plugin so that every API
// entry point is instantiated over a systematic type family.
//
// Backend selection: -DVB_MODEL32 (default) | -DVB_NOOP | -DVB_DYLIB
// Variants: -DVB_GRANT -DVB_INTERNAL (model32 only), -DVB_BYNAME (no static calls),
//           -DVB_TRANSITIONS (hooks + timing), -DRLBOX_EMBEDDER_PROVIDES_TLS_STATIC_VARIABLES,
//           -DRLBOX_USE_EXCEPTIONS, -DRLBOX_ENABLE_DEBUG_ASSERTIONS
#include "backend.hpp"
#include <memory>
#include <string>
using namespace rlbox;

// ---------------------------------------------------------------- structs
enum VbEnum { VbE0, VbE1 };
enum class VbScoped : unsigned char { A, B };
struct VbInner { int a; long b; };
struct VbS1 {
  unsigned long fl; const char* fs; char arr[8]; int (*fp)(unsigned, const char*);
  char* parr[4]; long larr[3]; VbInner in; double d; bool flag; short sh; long long ll;
  unsigned char uc; VbEnum en; float flt; void* vp; unsigned short us; int* ip;
};
struct VbS2 { char c; long l; short s; void* p; long long ll; char tail[3]; };
#define sandbox_fields_reflection_vb_class_VbInner(f, g, ...) \
  f(int, a, FIELD_NORMAL, ##__VA_ARGS__) g() f(long, b, FIELD_NORMAL, ##__VA_ARGS__) g()
#define sandbox_fields_reflection_vb_class_VbS1(f, g, ...) \
  f(unsigned long, fl, FIELD_NORMAL, ##__VA_ARGS__) g() f(const char*, fs, FIELD_NORMAL, ##__VA_ARGS__) g() \
  f(char[8], arr, FIELD_NORMAL, ##__VA_ARGS__) g() f(int (*)(unsigned, const char*), fp, FIELD_NORMAL, ##__VA_ARGS__) g() \
  f(char*[4], parr, FIELD_NORMAL, ##__VA_ARGS__) g() f(long[3], larr, FIELD_NORMAL, ##__VA_ARGS__) g() \
  f(VbInner, in, FIELD_NORMAL, ##__VA_ARGS__) g() f(double, d, FIELD_NORMAL, ##__VA_ARGS__) g() \
  f(bool, flag, FIELD_NORMAL, ##__VA_ARGS__) g() f(short, sh, FIELD_NORMAL, ##__VA_ARGS__) g() \
  f(long long, ll, FIELD_NORMAL, ##__VA_ARGS__) g() f(unsigned char, uc, FIELD_NORMAL, ##__VA_ARGS__) g() \
  f(VbEnum, en, FIELD_NORMAL, ##__VA_ARGS__) g() f(float, flt, FIELD_NORMAL, ##__VA_ARGS__) g() \
  f(void*, vp, FIELD_NORMAL, ##__VA_ARGS__) g() f(unsigned short, us, FIELD_NORMAL, ##__VA_ARGS__) g() \
  f(int*, ip, FIELD_NORMAL, ##__VA_ARGS__) g()
#define sandbox_fields_reflection_vb_class_VbS2(f, g, ...) \
  f(char, c, FIELD_NORMAL, ##__VA_ARGS__) g() f(long, l, FIELD_NORMAL, ##__VA_ARGS__) g() \
  f(short, s, FIELD_NORMAL, ##__VA_ARGS__) g() f(void*, p, FIELD_NORMAL, ##__VA_ARGS__) g() \
  f(long long, ll, FIELD_NORMAL, ##__VA_ARGS__) g() f(char[3], tail, FIELD_NORMAL, ##__VA_ARGS__) g()
#define sandbox_fields_reflection_vb_allClasses(f, ...) \
  f(VbInner, vb, ##__VA_ARGS__) f(VbS1, vb, ##__VA_ARGS__) f(VbS2, vb, ##__VA_ARGS__)
rlbox_load_structs_from_library(vb);

// ---------------------------------------------------------------- C06 matrix
#if defined(VB_PART_CONV) || defined(VB_PART_ALL)
template<class To, class From> void vb_conv1() { To t{}; From f{}; detail::convert_type_fundamental(t, f); }
template<class To, class... Fs> void vb_convrow() { (vb_conv1<To, Fs>(), ...); }
template<class... Ts> void vb_convall() { (vb_convrow<Ts, Ts...>(), ...); }
void vb_conv_matrix()
{
  vb_convall<bool, char, signed char, unsigned char, short, unsigned short, int, unsigned, long, unsigned long,
             long long, unsigned long long, char16_t, char32_t, wchar_t>();
  vb_conv1<float, double>(); vb_conv1<double, float>(); vb_conv1<VbEnum, VbEnum>();
}
template<class To, class From, size_t N> void vb_convarr1() { To t[N]{}; From f[N]{}; detail::convert_type_fundamental_or_array(t, f); }
void vb_conv_arrays()
{
  vb_convarr1<int, long, 3>(); vb_convarr1<long, int, 3>(); vb_convarr1<int, unsigned, 2>(); vb_convarr1<unsigned, int, 2>();
  vb_convarr1<char, char, 8>(); vb_convarr1<short, short, 4>(); vb_convarr1<unsigned long, unsigned, 5>();
  vb_convarr1<bool, unsigned char, 2>(); vb_convarr1<unsigned char, bool, 2>(); vb_convarr1<signed char, char, 2>();
  vb_convarr1<long long, long long, 2>(); vb_convarr1<int, int, 1>();
  std::array<int, 3> a{}; std::array<long, 3> b{}; detail::convert_type_fundamental_or_array(a, b);
  int c[2][3]{}; long d[2][3]{}; detail::convert_type_fundamental_or_array(c, d);
}
#endif

// ---------------------------------------------------------------- pointer operations per pointee type
template<class T> void vb_ptr_ops(rlbox_sandbox<SBX>& s)
{
  tainted<T*, SBX> p = s.template malloc_in_sandbox<T>(4);
  tainted<T*, SBX> p1 = s.template malloc_in_sandbox<T>();
  auto q = p + 1; auto r = p - 2L; auto q2 = p + (unsigned char)1; auto q3 = p - (long long)1; auto q4 = p + 1UL;
  tainted<int, SBX> ti = 1; tainted<unsigned long, SBX> tul = 1; auto q5 = p + ti; auto q6 = p - tul;
  { tainted<unsigned, SBX> tu = 1u; tainted<short, SBX> tsh = (short)1; tainted<long long, SBX> tll = 1LL;
    auto x1 = p + 1u; auto x2 = p - 1u; auto x3 = p - (unsigned short)1; auto x4 = p + (short)1; auto x5 = p - (signed char)1; auto x6 = p - 1ULL; auto x7 = p + true;
    auto x8 = p - tu; auto x9 = p + tsh; auto x10 = p - tll; auto& y1 = p[1u]; auto& y2 = p[tu]; auto& y3 = p[(signed char)1]; auto& y4 = p[1ULL]; auto& y5 = p[tll];
    p -= 1u; p += tu; p -= tll;
    (void)x1; (void)x2; (void)x3; (void)x4; (void)x5; (void)x6; (void)x7; (void)x8; (void)x9; (void)x10; (void)y1; (void)y2; (void)y3; (void)y4; (void)y5; }
  p += 1; p -= (unsigned char)1; p += ti; ++p; --p; p++; p--;
  auto& e = p[2]; auto& e2 = p[ti]; auto& e3 = p[(short)1]; auto a = &p[1]; auto& d = *p; auto* ar = p.operator->();
  const tainted<T*, SBX> cp = p; auto& ce = cp[1]; auto& cd = *cp; auto* car = cp.operator->();
  (void)p1; (void)q; (void)r; (void)q2; (void)q3; (void)q4; (void)q5; (void)q6; (void)e; (void)e2; (void)e3; (void)a; (void)d; (void)ar; (void)ce; (void)cd; (void)car;
  tainted<T, SBX> v = *p; *p = v; p[1] = v; *p = p[1]; v = p[2];
  { T plainv{}; *p = plainv; p[1] = T(1); if constexpr (std::is_integral_v<T>) { *p = 1; } v = plainv; }
  if constexpr (std::is_integral_v<T> && !std::is_same_v<T, bool>) {
    // one sandbox object assigned to another of a DIFFERENT integer type (tainted_volatile <- tainted_volatile)
    auto pll = s.template malloc_in_sandbox<long long>(); auto psh = s.template malloc_in_sandbox<short>(); auto pul = s.template malloc_in_sandbox<unsigned long>();
    *pll = *p; *p = *psh; *pul = *p; *p = *pll;
  }
  tainted<T*, SBX> ad = &d; (void)ad;
  auto c = p.copy_and_verify([](std::unique_ptr<T> x) { return x ? *x : T{}; });
  auto rg = p.copy_and_verify_range([](std::unique_ptr<T[]> x) { return x; }, 3);
  auto raw = p.unverified_safe_pointer_because(2, "r"); (void)c; (void)rg; (void)raw;
  auto badr = p.copy_and_verify_buffer_address([](uintptr_t u) { return u; }, 4); (void)badr;
  auto adr = p.copy_and_verify_address([](uintptr_t u) { return u; }); (void)adr;
  auto vv = v.copy_and_verify([](T x) { return x; }); (void)vv;
  auto dv = d.copy_and_verify([](T x) { return x; }); (void)dv;
  auto vvr = v.copy_and_verify([](const T& x) { return x; }); auto dvr = d.copy_and_verify([](const T& x) { return x; }); (void)vvr; (void)dvr;
  auto vva = v.copy_and_verify([](const auto& x) { return x; }); auto dva = d.copy_and_verify([](auto&& x) { return x; }); (void)vva; (void)dva;
  rlbox::memset(s, p, 0, 4u); rlbox::memcpy(s, p, q, 4u); auto h = rlbox::memcmp(s, p, q, 4u); (void)h;
  rlbox::memset(s, p, ti, tul); rlbox::memcpy(s, p, q, tul); rlbox::memcmp(s, p, q, tul);
  T plain[2]{}; rlbox::memcpy(s, p, plain, sizeof(plain)); rlbox::memcmp(s, p, plain, 2u);
  bool isn = (p == nullptr); bool isnn = (p != nullptr); bool b = !p; if (p) {} (void)isn; (void)isnn; (void)b;
  auto eq = (p == q); auto ne = (p != q); (void)eq; (void)ne;
  auto raw1 = p.UNSAFE_unverified(); auto raw2 = p.UNSAFE_sandboxed(s); (void)raw1; (void)raw2;
  auto raw3 = d.UNSAFE_unverified(); auto raw4 = d.UNSAFE_sandboxed(s); (void)raw3; (void)raw4;
  auto us = v.unverified_safe_because("x"); (void)us;
  p.assign_raw_pointer(s, raw1);
  tainted<T**, SBX> pp = s.template malloc_in_sandbox<T*>(2);
  *pp = p; p = *pp; pp[1] = p; *pp = nullptr; (*pp).assign_raw_pointer(s, raw1); *pp = pp[1];
  tainted<T*, SBX> fromvol(*pp); (void)fromvol;
  auto ppd = pp.copy_and_verify_address([](uintptr_t u) { return u; }); (void)ppd;
  // the same bulk operations applied to a pointer that itself lives in sandbox memory (tainted_volatile<T*>)
  { auto& vp0 = *pp;
    auto va = vp0.copy_and_verify_address([](uintptr_t u) { return u; }); (void)va;
    auto vb = vp0.copy_and_verify_buffer_address([](uintptr_t u) { return u; }, 4); (void)vb;
    auto vc = vp0.copy_and_verify([](std::unique_ptr<T> x) { return x ? *x : T{}; }); (void)vc;
    auto vr = vp0.copy_and_verify_range([](std::unique_ptr<T[]> x) { return x; }, 3); (void)vr;
    auto vu = vp0.unverified_safe_pointer_because(2, "r"); (void)vu; }
  s.free_in_sandbox(p); s.free_in_sandbox(*pp);
  auto op = p.to_opaque(); auto back = from_opaque(op); s.free_in_sandbox(op); (void)back;
  auto acc = s.UNSAFE_accept_pointer(raw1); (void)acc;
  auto vp = sandbox_reinterpret_cast<void*>(p); auto cp2 = sandbox_const_cast<const T*>(p); auto bk = sandbox_reinterpret_cast<T*>(vp);
  auto fromvolcast = sandbox_reinterpret_cast<char*>(*pp); (void)fromvolcast;
  // the other casts applied to a pointer that lives in sandbox memory (tainted_volatile source)
  auto fromvolconst = sandbox_const_cast<const T*>(*pp); (void)fromvolconst;
  auto fromvolstatic = sandbox_static_cast<const T*>(*pp); (void)fromvolstatic;
  (void)vp; (void)cp2; (void)bk;
}

// ---------------------------------------------------------------- numeric operators
template<class A, class B> void vb_num_ops2(rlbox_sandbox<SBX>& s)
{
  tainted<A, SBX> a = A(1); tainted<B, SBX> b = B(1); B pb = B(1); A pa = A(1);
  tainted<A*, SBX> pA = s.template malloc_in_sandbox<A>(); tainted<B*, SBX> pB = s.template malloc_in_sandbox<B>();
  auto& va = *pA; auto& vb = *pB;
#define VB_BIN(op) { auto r1 = a op b; auto r2 = a op pb; auto r3 = pa op b; auto r4 = va op b; auto r5 = a op vb; auto r6 = va op pb; auto r7 = pa op vb; (void)r1; (void)r2; (void)r3; (void)r4; (void)r5; (void)r6; (void)r7; }
  VB_BIN(+) VB_BIN(-) VB_BIN(*) VB_BIN(/) VB_BIN(==) VB_BIN(!=) VB_BIN(<) VB_BIN(<=) VB_BIN(>) VB_BIN(>=)
  if constexpr (std::is_integral_v<A> && std::is_integral_v<B>) {
    VB_BIN(%) VB_BIN(^) VB_BIN(&) VB_BIN(|) VB_BIN(<<) VB_BIN(>>)
    { auto l1 = a && b; auto l2 = a || b; auto l3 = a && pb; auto l4 = va && b; (void)l1; (void)l2; (void)l3; (void)l4; }
  }
#undef VB_BIN
#define VB_CA(op) { a op b; a op pb; va op b; va op pb; a op vb; }
  if constexpr (std::is_same_v<decltype(A() + B()), A>) {
    VB_CA(+=) VB_CA(-=) VB_CA(*=) VB_CA(/=)
    if constexpr (std::is_integral_v<A> && std::is_integral_v<B>) { VB_CA(%=) VB_CA(^=) VB_CA(&=) VB_CA(|=) VB_CA(<<=) VB_CA(>>=) }
  }
#undef VB_CA
}
template<class A> void vb_num_ops1(rlbox_sandbox<SBX>& s)
{
  tainted<A, SBX> a = A(1); tainted<A*, SBX> pA = s.template malloc_in_sandbox<A>(); auto& va = *pA;
  auto n = -a; auto vn = -va; (void)n; (void)vn;
  if constexpr (std::is_integral_v<A>) { auto c = ~a; auto vc = ~va; (void)c; (void)vc; }
  if constexpr (!std::is_same_v<A, bool> && std::is_same_v<decltype(A() + 1), A>) {
    ++a; --a; auto o1 = a++; auto o2 = a--; ++va; --va; (void)o1; (void)o2;
  } else if constexpr (std::is_same_v<A, bool>) { auto nb = !a; auto nvb = !va; (void)nb; (void)nvb; }
  vb_num_ops2<A, int>(s); vb_num_ops2<A, unsigned char>(s); vb_num_ops2<A, long>(s); vb_num_ops2<A, unsigned long>(s);
  vb_num_ops2<A, A>(s);
}

// ---------------------------------------------------------------- arrays
template<class T, size_t N, class I> void vb_arr_idx(rlbox_sandbox<SBX>& s)
{
  tainted<T[N], SBX> arr; I i = 0; tainted<I, SBX> ti = I(0);
  auto& e1 = arr[i]; auto& e2 = arr[ti]; const auto& carr = arr; auto& e3 = carr[i];
  tainted<T(*)[N], SBX> parr = s.template malloc_in_sandbox<T[N]>(); auto& va = *parr; auto& e4 = va[i]; auto& e5 = va[ti];
  auto& e6 = (*parr)[*(&e4) ] ; (void)e6;
  (void)e1; (void)e2; (void)e3; (void)e4; (void)e5;
  tainted<T[N], SBX> copy = va; va = arr; (void)copy;
  auto cv = arr.copy_and_verify([](std::array<T, N> x) { return x; }); (void)cv;
  auto cvv = va.copy_and_verify([](std::array<T, N> x) { return x; }); (void)cvv;
  // verifiers that take their argument by reference must still be handed an application-memory snapshot
  auto cvr = arr.copy_and_verify([](const std::array<T, N>& x) { return x[0]; }); (void)cvr;
  auto cvvr = va.copy_and_verify([](const std::array<T, N>& x) { return x[0]; }); (void)cvvr;
}
template<class T, size_t N> void vb_arr(rlbox_sandbox<SBX>& s)
{
  vb_arr_idx<T, N, signed char>(s); vb_arr_idx<T, N, unsigned char>(s); vb_arr_idx<T, N, short>(s); vb_arr_idx<T, N, unsigned short>(s);
  vb_arr_idx<T, N, int>(s); vb_arr_idx<T, N, unsigned>(s); vb_arr_idx<T, N, long>(s); vb_arr_idx<T, N, unsigned long>(s);
  vb_arr_idx<T, N, long long>(s); vb_arr_idx<T, N, unsigned long long>(s);
}
#if defined(VB_PART_ARR) || defined(VB_PART_ALL)
void vb_arr2d(rlbox_sandbox<SBX>& s)
{
  tainted<long[2][3], SBX> m; auto& row = m[1]; auto& el = row[(short)2]; (void)el;
  tainted<long(*)[2][3], SBX> pm = s.malloc_in_sandbox<long[2][3]>(); auto& vrow = (*pm)[1]; auto& vel = vrow[2u]; (void)vel;
  tainted<char*[4], SBX> pa; auto& pe = pa[1]; (void)pe;
  tainted<char*(*)[4], SBX> ppa = s.malloc_in_sandbox<char*[4]>(); auto& vpe = (*ppa)[2]; (void)vpe;
  tainted<char*[4], SBX> pcopy = *ppa; *ppa = pa; *ppa = *ppa; (void)pcopy;
}
#endif

// ---------------------------------------------------------------- invoke / callbacks
extern "C" {
long vb_f1(long a, int* p, VbS1 s);
VbS1 vb_f2();
void vb_f3(void);
int vb_f4(long (*cb)(long, int*), unsigned long long x, bool b, double d, float f, char c, short sh, unsigned char uc, VbEnum e, void* vp, const char* str, long long ll);
unsigned long vb_f5(unsigned long);
char* vb_f6(VbS2 s, char* p);
VbS2 vb_f7(VbInner i);
void vb_f8(void (*cb)(VbS2));
}
#if defined(VB_PART_INVOKE) || defined(VB_PART_ALL)
tainted<long, SBX> vb_cb1(rlbox_sandbox<SBX>&, tainted<long, SBX> a, tainted<int*, SBX> b) { (void)b; return a; }
void vb_cb2(rlbox_sandbox<SBX>&) {}
tainted_opaque<int*, SBX> vb_cb3(rlbox_sandbox<SBX>&, tainted_opaque<unsigned long, SBX> a, tainted<char, SBX> c, tainted<VbEnum, SBX> e) { (void)a; (void)c; (void)e; tainted<int*, SBX> r = nullptr; return r.to_opaque(); }
void vb_cb4(rlbox_sandbox<SBX>&, tainted<VbS2, SBX> s) { (void)s; }
tainted<unsigned short, SBX> vb_cb5(rlbox_sandbox<SBX>&, tainted<long long, SBX>, tainted<double, SBX>, tainted<bool, SBX>, tainted<void*, SBX>, tainted<int (*)(int), SBX>) { return (unsigned short)0; }

// sandbox_static_cast over integer pairs (both wrapper kinds as the source)
template<class L, class R> void vb_scast1(rlbox_sandbox<SBX>& s)
{
  tainted<R, SBX> t{}; auto a = sandbox_static_cast<L>(t); auto b = sandbox_static_cast<L>(*(&*s.template malloc_in_sandbox<R>())); (void)a; (void)b;
}
template<class L, class... Rs> void vb_scastrow(rlbox_sandbox<SBX>& s) { (vb_scast1<L, Rs>(s), ...); }
template<class... Ts> void vb_scastall(rlbox_sandbox<SBX>& s) { (vb_scastrow<Ts, Ts...>(s), ...); }

void vb_invoke(rlbox_sandbox<SBX>& s)
{
  vb_scastall<signed char, unsigned char, short, unsigned short, int, unsigned int, long, unsigned long, long long, unsigned long long>(s);
  tainted<VbS1*, SBX> ps = s.malloc_in_sandbox<VbS1>();
  tainted<VbS1, SBX> sv = *ps; *ps = sv; auto& vs = *ps;
  auto& f_fl = ps->fl; auto& f_arr = ps->arr; auto& f_in = ps->in; auto a_b = &ps->in.b; auto& f_parr = ps->parr; auto e_parr = &ps->parr[1];
  (void)f_fl; (void)f_arr; (void)f_in; (void)a_b; (void)f_parr; (void)e_parr; (void)vs;
  tainted<unsigned long, SBX> t_fl = ps->fl; ps->fl = t_fl; ps->fl = 3; ps->fs = nullptr; ps->sh = (short)3; ps->flag = true; ps->ll = t_fl;
  tainted<const char*, SBX> t_fs = ps->fs; ps->fs = t_fs; sv.fl = ps->fl; sv.in = ps->in; ps->in = sv.in;
  auto scv = sv.copy_and_verify([](tainted<VbS1, SBX> x) { return x.UNSAFE_unverified(); }); (void)scv;
  auto vcv = vs.copy_and_verify([](tainted<VbS1, SBX> x) { return x.UNSAFE_unverified(); }); (void)vcv;
  auto vcvr = vs.copy_and_verify([](const tainted<VbS1, SBX>& x) { return x.UNSAFE_unverified(); }); (void)vcvr;
  // verifiers whose parameter type is deduced: whatever object the library hands over is what they bind to
  auto vcva = vs.copy_and_verify([](const auto& x) { return x.UNSAFE_unverified(); }); (void)vcva;
  auto scva = sv.copy_and_verify([](auto&& x) { return x.UNSAFE_unverified(); }); (void)scva;
  auto pcv = ps.copy_and_verify([](std::unique_ptr<tainted<VbS1, SBX>> x) { return x != nullptr; }); (void)pcv;
  auto su = sv.UNSAFE_unverified(); auto ss = sv.UNSAFE_sandboxed(s); auto vu = vs.UNSAFE_unverified();
  auto sub = sv.unverified_safe_because("x"); auto sop = sv.to_opaque(); auto sback = from_opaque(sop); (void)su; (void)ss; (void)vu; (void)sub; (void)sback;
  { tainted<VbS2*, SBX> p2 = s.malloc_in_sandbox<VbS2>(); tainted<VbS2, SBX> v2 = *p2; *p2 = v2; auto u2 = p2->UNSAFE_unverified(); auto ss2 = v2.UNSAFE_sandboxed(s); auto uu2 = v2.UNSAFE_unverified(); (void)u2; (void)ss2; (void)uu2;
    tainted<VbInner*, SBX> p3 = s.malloc_in_sandbox<VbInner>(); tainted<VbInner, SBX> v3 = *p3; *p3 = v3; auto u3 = p3->UNSAFE_unverified(); auto ss3 = v3.UNSAFE_sandboxed(s); (void)u3; (void)ss3; }
  tainted<long, SBX> l = 3; tainted<int*, SBX> pi = s.malloc_in_sandbox<int>();
  auto res = s.invoke_sandbox_function(vb_f1, l, pi, sv); auto r2 = s.invoke_sandbox_function(vb_f2); s.invoke_sandbox_function(vb_f3);
  auto res1 = s.invoke_sandbox_function(vb_f1, 5, nullptr, sv); auto res2 = s.invoke_sandbox_function(vb_f1, l.to_opaque(), pi.to_opaque(), sop);
  auto res3 = s.invoke_sandbox_function(vb_f1, *(&*s.malloc_in_sandbox<long>()), *(&*s.malloc_in_sandbox<int*>()), sv);
  (void)res; (void)r2; (void)res1; (void)res2; (void)res3;
  auto cb = s.register_callback(vb_cb1);
  tainted<char*, SBX> str = s.malloc_in_sandbox<char>(10);
  auto r4 = s.invoke_sandbox_function(vb_f4, cb, 1ULL, true, 1.0, 1.0f, 'c', (short)1, (unsigned char)1, VbE1, sandbox_reinterpret_cast<void*>(pi), sandbox_const_cast<const char*>(str), 5LL);
  auto r5 = s.invoke_sandbox_function(vb_f5, 7UL); (void)r4; (void)r5;
  tainted<VbS2, SBX> s2; auto r6 = s.invoke_sandbox_function(vb_f6, s2, str); tainted<VbInner, SBX> in; auto r7 = s.invoke_sandbox_function(vb_f7, in); (void)r6; (void)r7;
  auto cbv = s.register_callback(vb_cb4); s.invoke_sandbox_function(vb_f8, cbv);
  sandbox_callback<long (*)(long, int*), SBX> cb_m; cb_m = std::move(cb); sandbox_callback<long (*)(long, int*), SBX> cb_c(std::move(cb_m));
  cb_c.unregister(); bool un = cb_c.is_unregistered(); auto cu = cb_c.UNSAFE_unverified(); auto cs = cb_c.UNSAFE_sandboxed(s); (void)un; (void)cu; (void)cs;
  auto cb2 = s.register_callback(vb_cb2); auto cb3 = s.register_callback(vb_cb3); auto cb5 = s.register_callback(vb_cb5); (void)cb2; (void)cb3; (void)cb5;
  tainted<long (**)(long, int*), SBX> pfn = s.malloc_in_sandbox<long (*)(long, int*)>();
  auto cb1b = s.register_callback(vb_cb1); *pfn = cb1b; tainted<long (*)(long, int*), SBX> fnv = *pfn; *pfn = fnv; *pfn = nullptr;
  auto fa = s.get_sandbox_function_address(vb_f5); tainted<unsigned long (**)(unsigned long), SBX> pfa = s.malloc_in_sandbox<unsigned long (*)(unsigned long)>(); *pfa = fa;
  ps->fp = nullptr; tainted<int (*)(unsigned, const char*), SBX> fpv = ps->fp; (void)fpv;
  auto s1 = str.copy_and_verify_string([](std::unique_ptr<char[]> v) { return v; });
  auto s2s = str.copy_and_verify_string([](std::string v) { return v; }); (void)s1; (void)s2s;
  // the same on a string pointer that itself lives in sandbox memory (tainted_volatile<char*> receiver)
  { tainted<char**, SBX> pstr = s.malloc_in_sandbox<char*>(); *pstr = str;
    auto v1 = (*pstr).copy_and_verify_string([](std::unique_ptr<char[]> v) { return v; });
    auto v2 = (*pstr).copy_and_verify_string([](std::string v) { return v; }); (void)v1; (void)v2; }
  tainted<const char*, SBX> cstr = sandbox_const_cast<const char*>(str);
  auto s3 = cstr.copy_and_verify_string([](std::unique_ptr<const char[]> v) { return v; }); (void)s3;
  int x; auto ap = s.get_app_pointer(&x); auto tp = ap.to_tainted(); auto lk = s.lookup_app_ptr(tp); (void)lk;
  app_pointer<int*, SBX> ap2; ap2 = std::move(ap); app_pointer<int*, SBX> ap3(std::move(ap2)); ap3.unregister(); bool au = ap3.is_unregistered(); (void)au;
  auto aps = ap3.UNSAFE_sandboxed(s); (void)aps;
  bool copied; char* src = nullptr; auto g = copy_memory_or_grant_access(s, src, 4, false, copied); auto dn = copy_memory_or_deny_access(s, g, 4, false, copied); (void)dn;
  char16_t* src16 = nullptr; auto g16 = copy_memory_or_grant_access(s, src16, 4, true, copied); auto dn16 = copy_memory_or_deny_access(s, g16, 4, true, copied); (void)dn16;
  double* srcd = nullptr; auto gd = copy_memory_or_grant_access(s, srcd, 4, true, copied); auto dnd = copy_memory_or_deny_access(s, gd, 4, true, copied); (void)dnd;
  auto sc = sandbox_static_cast<short>(l); auto sc2 = sandbox_static_cast<unsigned long>(*(&*s.malloc_in_sandbox<int>())); (void)sc; (void)sc2;
  auto op = l.to_opaque(); auto back = from_opaque(op); op.set_zero(); (void)back;
  tainted_boolean_hint h = (*pi == 3); auto hn = !h; bool hb = h.unverified_safe_because("x"); bool hu = h.UNSAFE_unverified(); (void)hn; (void)hb; (void)hu;
  tainted_int_hint ih = rlbox::memcmp(s, pi, pi, 4u); auto ihn = !ih; int ihu = ih.unverified_safe_because("x"); (void)ihn; (void)ihu;
#ifdef VB_DYLIB
  s.create_sandbox("lib.so"); s.destroy_sandbox();
#else
  s.create_sandbox(); s.destroy_sandbox();
#endif
  rlbox_sandbox<SBX> vb_local_sandbox; (void)vb_local_sandbox.sandbox_storage;
  void* st = s.get_transition_state(); s.set_transition_state(st); (void)s.get_total_memory(); (void)s.get_memory_location(); (void)s.get_sandbox_impl();
  (void)s.is_pointer_in_app_memory(nullptr); (void)s.is_pointer_in_sandbox_memory(nullptr);
#if !defined(RLBOX_USE_STATIC_CALLS)
  (void)s.lookup_symbol("x"); (void)s.internal_lookup_symbol("x");
#endif
#ifdef VB_TRANSITIONS
  auto& tt = s.process_and_get_transition_times(); (void)tt; (void)s.get_total_ns_time_in_sandbox_and_transitions(); s.clear_transition_times();
#endif
}

#endif

#if defined(VB_PART_PTR) || defined(VB_PART_ALL)
int vb_plain_fn(int);
// the run-time checked entry points with function-pointer and pointer-to-pointer values
void vb_checked_entry_fnptr(rlbox_sandbox<SBX>& s)
{
  tainted<int (*)(int), SBX> tf; tf.assign_raw_pointer(s, &vb_plain_fn);
  tainted<int (**)(int), SBX> pf = s.malloc_in_sandbox<int (*)(int)>(); (*pf).assign_raw_pointer(s, &vb_plain_fn); pf[0].assign_raw_pointer(s, &vb_plain_fn);
  auto acc = s.UNSAFE_accept_pointer(&vb_plain_fn); (void)acc;
  int* raw = nullptr; int** rawpp = &raw; tainted<int**, SBX> tpp; tpp.assign_raw_pointer(s, rawpp); auto acc2 = s.UNSAFE_accept_pointer(rawpp); (void)acc2;
  void* rawv = nullptr; tainted<void*, SBX> tv; tv.assign_raw_pointer(s, rawv); tv.assign_raw_pointer(s, raw); auto acc3 = s.UNSAFE_accept_pointer(rawv); (void)acc3;
  const char* rawc = nullptr; tainted<const char*, SBX> tc; tc.assign_raw_pointer(s, rawc); auto acc4 = s.UNSAFE_accept_pointer(rawc); (void)acc4;
}
#endif

void vb_all(rlbox_sandbox<SBX>& s)
{
#if defined(VB_PART_CONV) || defined(VB_PART_ALL)
  vb_conv_matrix(); vb_conv_arrays();
#endif
#if defined(VB_PART_PTR) || defined(VB_PART_ALL)
  vb_ptr_ops<int>(s); vb_ptr_ops<long>(s); vb_ptr_ops<unsigned long>(s); vb_ptr_ops<char>(s); vb_ptr_ops<double>(s);
  vb_checked_entry_fnptr(s);
  vb_ptr_ops<short>(s); vb_ptr_ops<unsigned long long>(s); vb_ptr_ops<unsigned char>(s); vb_ptr_ops<bool>(s); vb_ptr_ops<float>(s); vb_ptr_ops<char16_t>(s);
#endif
#if defined(VB_PART_NUM) || defined(VB_PART_ALL)
  vb_num_ops1<int>(s); vb_num_ops1<unsigned char>(s); vb_num_ops1<long>(s); vb_num_ops1<unsigned long long>(s);
  vb_num_ops1<bool>(s); vb_num_ops1<double>(s);
#  ifdef VB_THOROUGH
  vb_num_ops1<unsigned>(s); vb_num_ops1<unsigned long>(s); vb_num_ops1<short>(s); vb_num_ops1<signed char>(s); vb_num_ops1<char>(s);
  vb_num_ops1<long long>(s); vb_num_ops1<float>(s); vb_num_ops1<unsigned short>(s);
#  endif
#endif
#if defined(VB_PART_ARR) || defined(VB_PART_ALL)
  vb_arr<int, 4>(s); vb_arr<long, 1>(s); vb_arr<char, 16>(s); vb_arr<unsigned long, 3>(s); vb_arr<short, 7>(s);
  // extents beyond the positive range of the narrow index types: values that alias a valid index after a
  // truncating / sign-changing cast only exist for such extents (128 < N, 32768 < N, 2^31 < N)
  vb_arr<char, 200>(s); vb_arr<char, 300>(s); vb_arr<char, 40000>(s); vb_arr<char, 70000>(s); vb_arr<char, 3000000000UL>(s);
  vb_arr2d(s);
#endif
#if defined(VB_PART_INVOKE) || defined(VB_PART_ALL)
  vb_invoke(s);
#endif
}


// ---------------------------------------------------------------- scope guard (C19): every member of detail::scope_exit
#if defined(VB_PART_SCOPE) || defined(VB_PART_ALL)
void vb_scope_guard()
{
  int vb_cnt = 0; auto vb_g = rlbox::detail::make_scope_exit([&] { vb_cnt++; }); auto vb_g2 = std::move(vb_g); vb_g2.release();
  auto vb_g3 = rlbox::detail::make_scope_exit([&] { vb_cnt--; }); (void)vb_g3;
}
#endif
