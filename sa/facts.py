"""Fact extraction and access.

Runs the factdump plugin over instantiation drivers against /repo's *current*
working tree and loads the JSON facts.  A content hash of the analysed headers,
the driver, the backend model and the plugin keys a cache under /verif/.cache
so that several checks share extraction work; an edited header always leads to
re-extraction.
"""
import hashlib
import json
import os
import subprocess
import sys
import time
from concurrent.futures import ThreadPoolExecutor

VERIF = os.path.dirname(os.path.dirname(os.path.abspath(__file__)))
REPO = os.environ.get("VERIF_REPO", "/repo")
INCLUDE = os.path.join(REPO, "code", "include")
CACHE = os.path.join(VERIF, ".cache")
PLUGIN = os.path.join(VERIF, "build", "factdump.so")
DRIVERS = os.path.join(VERIF, "drivers")


class AnalysisBroken(Exception):
    """The analysis could not be carried out (exit code 2) - never a pass, never a violation."""


def ensure_plugin():
    src = os.path.join(VERIF, "tools", "factdump", "factdump.cc")
    if not os.path.exists(PLUGIN) or os.path.getmtime(PLUGIN) < os.path.getmtime(src):
        r = subprocess.run([os.path.join(VERIF, "tools", "factdump", "build.sh")], capture_output=True, text=True)
        if r.returncode != 0 or not os.path.exists(PLUGIN):
            raise AnalysisBroken("cannot build factdump plugin: " + r.stderr[-2000:])


_hash_cache = {}


def tree_hash():
    """Hash of every header under code/include of the analysed repository."""
    if "tree" in _hash_cache:
        return _hash_cache["tree"]
    h = hashlib.sha256()
    if not os.path.isdir(INCLUDE):
        raise AnalysisBroken("missing anchor directory " + INCLUDE)
    for root, _dirs, files in sorted(os.walk(INCLUDE)):
        for f in sorted(files):
            p = os.path.join(root, f)
            h.update(p.encode())
            with open(p, "rb") as fh:
                h.update(fh.read())
    _hash_cache["tree"] = h.hexdigest()
    return _hash_cache["tree"]


def file_hash(p):
    with open(p, "rb") as fh:
        return hashlib.sha256(fh.read()).hexdigest()


def _key(driver, defs, extra=()):
    h = hashlib.sha256()
    h.update(tree_hash().encode())
    h.update(file_hash(os.path.join(DRIVERS, driver)).encode())
    for f in sorted(os.listdir(DRIVERS)):
        if f.endswith(".hpp"):
            h.update(file_hash(os.path.join(DRIVERS, f)).encode())
    h.update(file_hash(os.path.join(VERIF, "tools", "factdump", "factdump.cc")).encode())
    h.update(" ".join(defs).encode())
    h.update(" ".join(extra).encode())
    return h.hexdigest()[:24]


def clang_cmd(defs, extra_inc=()):
    cmd = ["clang++", "-std=c++17", "-fsyntax-only", "-UNDEBUG", "-w", "-I" + INCLUDE, "-I" + DRIVERS]
    for i in extra_inc:
        cmd.append("-I" + i)
    cmd += list(defs)
    return cmd


def extract(driver, defs=()):
    """Return path of the facts file for (driver, defs), extracting if needed."""
    ensure_plugin()
    os.makedirs(CACHE, exist_ok=True)
    key = _key(driver, defs)
    out = os.path.join(CACHE, "facts-%s.json" % key)
    if os.path.exists(out) and os.path.getsize(out) > 0:
        return out
    tmp = out + ".tmp.%d" % os.getpid()
    cmd = clang_cmd(defs) + [
        "-fplugin=" + PLUGIN,
        "-Xclang", "-plugin-arg-factdump", "-Xclang", "out=" + tmp,
        "-Xclang", "-plugin-arg-factdump", "-Xclang", "recroot=" + DRIVERS + "/",
        os.path.join(DRIVERS, driver),
    ]
    r = subprocess.run(cmd, capture_output=True, text=True)
    if r.returncode != 0 or not os.path.exists(tmp) or os.path.getsize(tmp) == 0:
        if os.path.exists(tmp):
            os.remove(tmp)
        raise AnalysisBroken(
            "driver %s %s does not compile against the current tree (the instantiation family is "
            "no longer analysable):\n%s" % (driver, " ".join(defs), (r.stderr or r.stdout)[-3000:]))
    os.replace(tmp, out)
    return out


def prune_cache(keep_seconds=6 * 3600, max_bytes=1500 * 1024 * 1024):
    """Bound the cache size: drop entries of other tree states, oldest first."""
    if not os.path.isdir(CACHE):
        return
    ents = []
    for f in os.listdir(CACHE):
        p = os.path.join(CACHE, f)
        try:
            st = os.stat(p)
        except OSError:
            continue
        ents.append((st.st_mtime, st.st_size, p))
    ents.sort()
    total = sum(e[1] for e in ents)
    now = time.time()
    for mt, sz, p in ents:
        if total <= max_bytes and now - mt < keep_seconds:
            break
        if total > max_bytes or now - mt >= keep_seconds:
            try:
                os.remove(p)
                total -= sz
            except OSError:
                pass


def strip_targs(name):
    """'ns::C<a, b<c>>::f' -> 'ns::C::f' (keeps operator<, operator<<, operator-> etc.)"""
    i = name.rfind("::operator")
    tail = ""
    if i >= 0 and not name[i + 10:i + 11].isalnum() and name[i + 10:i + 11] != "_":
        name, tail = name[:i], name[i:]
    elif name.startswith("operator") and not name[8:9].isalnum():
        return name
    out = []
    depth = 0
    for ch in name:
        if ch == "<":
            depth += 1
        elif ch == ">":
            depth -= 1
        elif depth == 0:
            out.append(ch)
    return "".join(out) + tail


class FactDB:
    """One translation unit's facts with indices."""

    def __init__(self, path, label=""):
        self.path = path
        self.label = label
        with open(path) as fh:
            d = json.load(fh)
        self.types = d["types"]
        self.functions = d["functions"]
        self.records = d["records"]
        self.statics = d["statics"]
        self._resolve_types(d)
        for f in self.functions:
            f["n_full"] = f["n"]
            f["n"] = strip_targs(f["n"])
        for r in self.records:
            r["n_full"] = r["n"]
            r["n"] = strip_targs(r["n"])
        self._canonical_storage_name()
        self.fn_by_id = {f["id"]: f for f in self.functions}
        self.fn_by_name = {}
        for f in self.functions:
            self.fn_by_name.setdefault(f["n"], []).append(f)
        self.rec_by_id = {r["id"]: r for r in self.records}
        self.rec_by_name = {}
        for r in self.records:
            self.rec_by_name.setdefault(r["n"], []).append(r)

    STORAGE = "data"
    # Members the rules refer to by name, identified by the ROLE their type gives them inside their class: the spelling of a private
    # member is not part of any property, so a renamed member is presented under its canonical name (resolved by declaration id).
    # (record, "field"|"svar", predicate on the canonical type spelling, canonical name); a role matched by several members is left alone.
    ROLES = [
        ("rlbox::rlbox_sandbox", "field", lambda c: c.startswith("std::atomic<") and "Sandbox_Status" in c, "sandbox_created"),
        ("rlbox::rlbox_sandbox", "field", lambda c: c == "std::mutex", "callback_lock"),
        ("rlbox::rlbox_sandbox", "field", lambda c: c == "std::vector<void *>", "callback_keys"),
        ("rlbox::rlbox_sandbox", "svar", lambda c: c == "std::vector<void *>", "sandbox_list"),
        ("rlbox::rlbox_sandbox", "svar", lambda c: c == "std::shared_timed_mutex", "sandbox_list_lock"),
        ("rlbox::rlbox_sandbox", "field", lambda c: c == "std::shared_timed_mutex", "func_ptr_cache_lock"),
        ("rlbox::rlbox_sandbox", "field", lambda c: c.startswith("rlbox::app_pointer_map<"), "app_ptr_map"),
        ("rlbox::app_pointer_map", "field", lambda c: c.startswith("std::map<"), "pointer_map"),
        ("rlbox::rlbox_noop_sandbox_thread_data", "field", lambda c: c.endswith("*"), "sandbox"),
        ("rlbox::rlbox_noop_sandbox_thread_data", "field", lambda c: not c.endswith("*"), "last_callback_invoked"),
        ("rlbox::rlbox_dylib_sandbox_thread_data", "field", lambda c: c.endswith("*"), "sandbox"),
        ("rlbox::rlbox_dylib_sandbox_thread_data", "field", lambda c: not c.endswith("*"), "last_callback_invoked"),
    ]

    def _canonical_storage_name(self):
        """The rules refer to the wrappers' single storage member as `data` (and to a few bookkeeping members by name, see ROLES).
        When the source calls one of them something else, every declaration, member expression, reference and member initialiser
        that resolves (by declaration id) to that member is presented under the canonical name."""
        wrappers = {"rlbox::tainted": self.STORAGE, "rlbox::tainted_volatile": self.STORAGE, "rlbox::tainted_opaque": self.STORAGE,
                    "rlbox::tainted_boolean_hint": "val", "rlbox::tainted_int_hint": "val"}
        ren = {}  # decl id -> (old, new)
        names = set()
        for r in self.records:
            if r["n"] in wrappers and len(r.get("fields") or []) == 1 and not r.get("explicit_spec"):
                fl = r["fields"][0]
                if "d" in fl:
                    if wrappers[r["n"]] == self.STORAGE:
                        names.add(fl["n"])
                    if fl["n"] != wrappers[r["n"]]:
                        ren[fl["d"]] = (fl["n"], wrappers[r["n"]])
            for rec, kind, pred, canon in self.ROLES:
                if r["n"] != rec:
                    continue
                members = r.get("fields") if kind == "field" else r.get("svars")
                cands = [m for m in (members or []) if "d" in m and pred(((m.get("t") or {}).get("c") or ""))]
                if len(cands) == 1 and cands[0]["n"] != canon and not any(m["n"] == canon for m in (r.get("fields") or []) + (r.get("svars") or [])):
                    ren[cands[0]["d"]] = (cands[0]["n"], canon)
        # a bookkeeping member wrapped, together with its lock, into a small rlbox:: class of its own (`detail::key_registry keys;` holding
        # the vector and the mutex, with add/remove members): the roles are identified by type inside the wrapper, the wrapper's fields
        # are presented as fields of the enclosing class and `this->wrapper.member` as `this->member` (Engine.flatten_nested_state)
        self.wrapper_members = set()
        splice = []
        by_id = {r["id"]: r for r in self.records}
        for r in self.records:
            for rec, kind, pred, canon in self.ROLES:
                if r["n"] != rec or kind != "field":
                    continue
                flds = r.get("fields") or []
                if any(pred(((m.get("t") or {}).get("c") or "")) for m in flds) or any(m["n"] == canon and (m.get("t") or {}).get("k") != "rec" for m in flds):
                    continue
                hits = []
                for m in flds:
                    mt = m.get("t") or {}
                    inner = by_id.get(mt.get("rid")) if mt.get("k") == "rec" and (mt.get("rn") or "").startswith("rlbox::") else None
                    if inner is None or inner["n"] == rec:
                        continue
                    cs = [x for x in (inner.get("fields") or []) if "d" in x and pred(((x.get("t") or {}).get("c") or ""))]
                    if len(cs) == 1:
                        hits.append((m, inner, cs[0]))
                if len(hits) == 1:
                    m, inner, x = hits[0]
                    if x["n"] != canon:
                        ren[x["d"]] = (x["n"], canon)
                    self.wrapper_members.add(m["n"])
                    if (r["id"], m["n"]) not in [(a["id"], b) for a, b, _ in splice]:
                        splice.append((r, m["n"], inner))
        self._splice = splice
        # a static bookkeeping member that was moved out of its class into a helper struct (rlbox::detail::registry<T>::entries):
        # the same role, identified by type, in whichever rlbox:: record now holds it - if exactly one (record, member) does
        for rec, kind, pred, canon in self.ROLES:
            if kind != "svar":
                continue
            if any(m["n"] == canon for r in self.records for m in (r.get("svars") or [])) or any(v[1] == canon for v in ren.values()):
                continue
            cands = {}
            for r in self.records:
                if not (r.get("n") or "").startswith("rlbox::") or r["n"] == rec:
                    continue
                for m in (r.get("svars") or []):
                    if "d" in m and pred(((m.get("t") or {}).get("c") or "")):
                        cands.setdefault((r["n"], m["n"]), []).append(m)
            if len(cands) == 1:
                for m in next(iter(cands.values())):
                    ren[m["d"]] = (m["n"], canon)
        # the bundled backends' slot tables: two arrays of the same type, told apart by what impl_register_callback(key, callback)
        # stores into them (first parameter -> key table, second parameter -> entry-point table)
        def strip_(o):
            while isinstance(o, dict) and o.get("k") in ("icast", "cast", "paren"):
                o = o.get("e")
            return o

        by_role = {}
        for f in self.functions:
            if f.get("sn") != "impl_register_callback" or "body" not in f:
                continue
            stack = [f["body"]]
            while stack:
                x = stack.pop()
                if isinstance(x, dict):
                    if x.get("k") == "bin" and x.get("op") == "=" and isinstance(x.get("l"), dict) and x["l"].get("k") == "idx":
                        rhs = strip_(x.get("r"))
                        mem = [m for m in (strip_(x["l"].get("l")), strip_(x["l"].get("r"))) if isinstance(m, dict) and m.get("k") == "member" and "d" in m]
                        if mem and isinstance(rhs, dict) and rhs.get("k") == "ref" and rhs.get("dk") == "param" and rhs.get("pi") in (0, 1):
                            role = "callback_unique_keys" if rhs["pi"] == 0 else "callbacks"
                            by_role.setdefault((f.get("rid"), role), set()).add((mem[0]["d"], mem[0]["n"]))
                    stack.extend(v for v in x.values() if isinstance(v, (dict, list)))
                elif isinstance(x, list):
                    stack.extend(v for v in x if isinstance(v, (dict, list)))
        name_roles = {}  # (record name, member name as spelled) -> canonical name; applied to every instantiation of that record
        rec_name = {r["id"]: r["n"] for r in self.records}
        for (rid, role), ms in by_role.items():
            if len(ms) == 1:
                d_, n_ = next(iter(ms))
                if n_ != role:
                    ren[d_] = (n_, role)
                    name_roles[(rec_name.get(rid), n_)] = role
        # the symbol caches of rlbox_sandbox: two maps of one type, told apart by the lookup function that uses them
        for fname, role in (("lookup_symbol", "func_ptr_map"), ("internal_lookup_symbol", "internal_func_ptr_map")):
            per_rec = {}
            for f in self.functions:
                if f.get("sn") != fname or "body" not in f or not f["n"].startswith("rlbox::rlbox_sandbox::"):
                    continue
                stack = [f["body"]]
                while stack:
                    x = stack.pop()
                    if isinstance(x, dict):
                        if x.get("k") == "member" and "d" in x and ((x.get("t") or {}).get("c") or "").startswith("std::map<"):
                            per_rec.setdefault(f.get("rid"), set()).add((x["d"], x["n"]))
                        stack.extend(v for v in x.values() if isinstance(v, (dict, list)))
                    elif isinstance(x, list):
                        stack.extend(v for v in x if isinstance(v, (dict, list)))
            for rid, ms in per_rec.items():
                if len(ms) == 1:
                    d_, n_ = next(iter(ms))
                    if n_ != role and d_ not in ren:
                        ren[d_] = (n_, role)
                        name_roles[(rec_name.get(rid), n_)] = role
        # a role found through one instantiation (or the template pattern) holds for every instantiation of the same class
        for r in self.records:
            have = {m["n"] for m in (r.get("fields") or []) + (r.get("svars") or [])}
            for m in (r.get("fields") or []) + (r.get("svars") or []):
                role = name_roles.get((r["n"], m["n"]))
                if role and "d" in m and m["d"] not in ren and role not in have:
                    ren[m["d"]] = (m["n"], role)
        self.storage_names = sorted(names)
        self.renamed_members = sorted({"%s->%s" % v for v in ren.values()})
        if ren:
            self._apply_renames(ren)
        import copy
        for r, outer, inner in self._splice:
            out = []
            for m in r.get("fields") or []:
                out += copy.deepcopy(inner.get("fields") or []) if m["n"] == outer and (m.get("t") or {}).get("k") == "rec" else [m]
            r["fields"] = out

    def _apply_renames(self, ren):

        def fix(x, key, old, new_):
            v = x.get(key)
            if isinstance(v, str):
                if v == old:
                    x[key] = new_
                elif v.endswith("::" + old):
                    x[key] = v[:-len(old)] + new_

        stack = [self.functions, self.records, self.statics]
        while stack:
            x = stack.pop()
            if isinstance(x, dict):
                d_ = x.get("d")
                if d_ in ren and isinstance(d_, int):
                    old, new_ = ren[d_]
                    for key in ("n", "qn", "sn"):
                        fix(x, key, old, new_)
                stack.extend(v for v in x.values() if isinstance(v, (dict, list)))
            elif isinstance(x, list):
                stack.extend(v for v in x if isinstance(v, (dict, list)))

    def _resolve_types(self, d):
        types = self.types
        TKEYS = ("t", "ret", "arg", "cls", "convto", "alloc", "vart")

        def walk(x):
            stack = [x]
            while stack:
                x = stack.pop()
                if isinstance(x, dict):
                    for k, v in x.items():
                        if k in TKEYS and isinstance(v, int) and not isinstance(v, bool):
                            x[k] = types[v]
                        elif k in ("targt", "ctargt", "params") and isinstance(v, list):
                            for i, e in enumerate(v):
                                if isinstance(e, int) and not isinstance(e, bool):
                                    v[i] = types[e]
                                elif isinstance(e, dict):
                                    if "pack" in e:
                                        e["pack"] = [types[q] if isinstance(q, int) else q for q in e["pack"]]
                                    else:
                                        stack.append(e)
                        elif isinstance(v, (dict, list)):
                            stack.append(v)
                elif isinstance(x, list):
                    for v in x:
                        if isinstance(v, (dict, list)):
                            stack.append(v)

        walk(d["functions"])
        walk(d["records"])
        walk(d["statics"])

    # ---- queries
    def insts(self, qname):
        """Non-dependent (instantiated or plain) definitions of a qualified function name."""
        return [f for f in self.fn_by_name.get(qname, []) if not f["dep"]]

    def patterns(self, qname):
        return [f for f in self.fn_by_name.get(qname, []) if f["dep"]]


def load_many(specs, jobs=16):
    """specs: list of (label, driver, defs). Returns list of FactDB (extraction in parallel)."""
    ensure_plugin()
    tree_hash()
    with ThreadPoolExecutor(max_workers=jobs) as ex:
        paths = list(ex.map(lambda s: extract(s[1], s[2]), specs))
    out = []
    for p, s in zip(paths, specs):
        try:
            out.append(FactDB(p, label=s[0]))
        except (FileNotFoundError, json.JSONDecodeError):
            # the cache entry was pruned / is being rewritten by a concurrent run: extract again
            if os.path.exists(p):
                os.remove(p)
            out.append(FactDB(extract(s[1], s[2]), label=s[0]))
    return out


# ---------------------------------------------------------------- driver families
BACKENDS = {
    "model32": [],
    "model32gi": ["-DVB_GRANT", "-DVB_INTERNAL", "-DVB_BYNAME"],
    "noop": ["-DVB_NOOP"],
    "dylib": ["-DVB_DYLIB"],
    "noop_tls": ["-DVB_NOOP", "-DRLBOX_EMBEDDER_PROVIDES_TLS_STATIC_VARIABLES"],
    "dylib_tls": ["-DVB_DYLIB", "-DRLBOX_EMBEDDER_PROVIDES_TLS_STATIC_VARIABLES"],
    "model32_trans": ["-DVB_TRANSITIONS"],
    "noop_trans": ["-DVB_NOOP", "-DVB_TRANSITIONS", "-DRLBOX_USE_EXCEPTIONS"],
    "model32_dbg": ["-DRLBOX_ENABLE_DEBUG_ASSERTIONS", "-DRLBOX_USE_EXCEPTIONS"],
}
PARTS = ["CONV", "PTR", "NUM", "ARR", "INVOKE", "SCOPE"]


def core_specs(backends, parts, thorough=False):
    out = []
    for b in backends:
        for p in parts:
            defs = list(BACKENDS[b]) + ["-DVB_PART_" + p]
            if thorough:
                defs.append("-DVB_THOROUGH")
            out.append(("%s/%s" % (b, p), "core.cpp", defs))
    return out


def load_core(backends, parts, thorough=False):
    return load_many(core_specs(backends, parts, thorough))


def load_sigs(backends, thorough=False):
    """the generated signature / callback family (drivers/sigs.cpp + gen_sigs.hpp, see tools/gen_sigs.py)"""
    return load_many([("%s/SIGS" % b, "sigs.cpp", list(BACKENDS[b]) + (["-DVB_THOROUGH"] if thorough else [])) for b in backends])


def load_structs(backends, thorough=False):
    """the generated struct family (drivers/structs.cpp + gen_structs.hpp, see tools/gen_structs.py)"""
    return load_many([("%s/STRUCT" % b, "structs.cpp", list(BACKENDS[b]) + (["-DVB_THOROUGH"] if thorough else [])) for b in backends])
