"""Independent ABI model: guest size/alignment of a host C type under a backend's ABI.

This is deliberately *not* derived from RLBox's own convert_base_types_t: it is the
reference the checker compares RLBox's instantiated constants and layouts against.
"""
import re

HOST = {  # LP64
    "bool": (1, 1), "char": (1, 1), "signed char": (1, 1), "unsigned char": (1, 1),
    "short": (2, 2), "unsigned short": (2, 2), "int": (4, 4), "unsigned int": (4, 4),
    "long": (8, 8), "unsigned long": (8, 8), "long long": (8, 8), "unsigned long long": (8, 8),
    "char16_t": (2, 2), "char32_t": (4, 4), "wchar_t": (4, 4), "float": (4, 4), "double": (8, 8), "long double": (16, 16),
    "__int128": (16, 16), "unsigned __int128": (16, 16),
}
MODEL32 = dict(HOST)
MODEL32.update({"long": (4, 4), "unsigned long": (4, 4)})
PTR = {"host": (8, 8), "model32": (4, 4)}


def abi_of(label):
    return "model32" if label.startswith("model32") else "host"


class Unknown(Exception):
    pass


def strip_cv(s):
    s = re.sub(r"\b(const|volatile)\b", "", s)
    return re.sub(r"\s+", " ", s).strip()


def size_align(db, tname, abi):
    """tname: canonical type spelling as printed by clang (e.g. 'long', 'char *', 'long[3]', 'VbS1', 'int (*)(int)')"""
    t = strip_cv(tname)
    t = t.replace("* ", "*").strip()
    # arrays: T[N][M]
    m = re.match(r"^(.*?)((\[\d+\])+)$", t)
    if m and not t.endswith(")"):
        base = m.group(1).strip()
        dims = [int(x) for x in re.findall(r"\[(\d+)\]", m.group(2))]
        # pointer-to-array spelled 'int (*)[4]' is handled below (contains '(*)')
        if "(*" not in base:
            s, a = size_align(db, base, abi)
            n = 1
            for d in dims:
                n *= d
            return s * n, a
    m2 = re.search(r"\(\*((\[\d+\])+)\)", t)
    if m2:
        # array of pointers to functions / arrays, spelled 'int (*[3])(int)': the extents sit inside the declarator
        n = 1
        for d in re.findall(r"\[(\d+)\]", m2.group(1)):
            n *= int(d)
        return PTR[abi][0] * n, PTR[abi][1]
    if "(*" in t or t.endswith("*") or re.search(r"\*\s*(const)?$", tname):
        return PTR[abi]
    table = MODEL32 if abi == "model32" else HOST
    if t in table:
        return table[t]
    # enums keep their host representation; registered structs get the guest layout
    for ty in db.types:
        if ty and ty.get("u") == t:
            if ty.get("k") == "enum":
                return ty["sz"], ty["al"]
            if ty.get("k") == "rec":
                return struct_layout(db, t, abi)[:2]
    raise Unknown(t)


def struct_fields(db, name):
    for r in db.rec_by_name.get(name, []):
        if not r["dep"]:
            return [(f["n"], (f["t"] or {}).get("c")) for f in r["fields"]]
    raise Unknown("record " + name)


def struct_layout(db, name, abi):
    """natural-alignment layout: returns (size, align, [(field, offset, size)])"""
    off = 0
    maxal = 1
    out = []
    for fname, ftype in struct_fields(db, name):
        s, a = size_align(db, ftype, abi)
        off = (off + a - 1) // a * a
        out.append((fname, off, s))
        off += s
        maxal = max(maxal, a)
    size = (off + maxal - 1) // maxal * maxal
    if size == 0:
        size = 1
    return size, maxal, out
