"""Obligation bookkeeping, known-findings matching, evidence and exit codes."""
import json
import os
import sys
import time

VERIF = os.path.dirname(os.path.dirname(os.path.abspath(__file__)))
KNOWN = os.path.join(VERIF, "known_findings.json")
# the self test runs the checks against scratch trees and must not overwrite the real evidence
_ALT = os.environ.get("VERIF_EVIDENCE_DIR")
EVIDENCE_DIR = _ALT if _ALT else os.path.join(VERIF, "evidence")
REPLAY_DIR = os.path.join(_ALT, "replay") if _ALT else os.path.join(VERIF, "replay")


class RuleView:
    """a view of a report that renames the rules a shared analysis reports under (rule ids not in the map are dropped:
    they are the owning property's business)"""
    def __init__(self, rep, mapping):
        self.rep, self.mapping = rep, mapping

    def ok(self, rule, *a, **k):
        if rule in self.mapping:
            self.rep.ok(self.mapping[rule], *a, **k)

    def violation(self, rule, *a, **k):
        if rule in self.mapping:
            self.rep.violation(self.mapping[rule], *a, **k)

    def inconclusive(self, rule, *a, **k):
        if rule in self.mapping:
            self.rep.inconclusive(self.mapping[rule], *a, **k)

    def require(self, cond, msg):
        self.rep.require(cond, msg)


class Report:
    def __init__(self, pid, tier, level, seed=0):
        self.pid = pid
        self.tier = tier
        self.level = level
        self.seed = seed
        self.t0 = time.time()
        self.obligations = []  # dicts
        self.units = []
        self.rules = {}
        self.assumptions = []
        self.notes = []
        self.extra = {}
        self.broken = []

    # ------------------------------------------------------------ recording
    def rule(self, rid, text):
        self.rules[rid] = text

    def ok(self, rule, site, detail="", instance="", nontrivial=True):
        self.obligations.append({"rule": rule, "site": site, "instance": instance, "status": "holds", "detail": detail, "nontrivial": nontrivial})

    def violation(self, rule, site, what, loc="", instance="", detail=None):
        self.obligations.append({"rule": rule, "site": site, "instance": instance, "status": "violation", "what": what, "loc": loc, "detail": detail, "nontrivial": True})

    def inconclusive(self, rule, site, why, instance=""):
        self.broken.append("%s %s %s: %s" % (rule, site, instance, why))

    def require(self, cond, msg):
        """coverage guard: a vanished anchor / instance count below the floor is ANALYSIS-BROKEN"""
        if not cond:
            self.broken.append(msg)

    # ------------------------------------------------------------ finishing
    def finish(self):
        try:
            known = json.load(open(KNOWN))
        except FileNotFoundError:
            known = {"findings": [], "fixed": []}
        kf = [k for k in known.get("findings", []) if k["property"] == self.pid]
        viol = [o for o in self.obligations if o["status"] == "violation"]
        # group violations by (rule, site)
        groups = {}
        for v in viol:
            groups.setdefault((v["rule"], v["site"]), []).append(v)
        new_groups = {}
        matched = set()
        for (rule, site), vs in groups.items():
            m = None
            for k in kf:
                if k["rule"] == rule and k["site"] == site:
                    m = k
                    break
            if m is not None:
                matched.add((m["rule"], m["site"]))
                for v in vs:
                    v["status"] = "known-finding"
            else:
                new_groups[(rule, site)] = vs
        wall = time.time() - self.t0
        os.makedirs(EVIDENCE_DIR, exist_ok=True)
        os.makedirs(REPLAY_DIR, exist_ok=True)
        if self.broken and not new_groups:
            for b in self.broken:
                print("ANALYSIS-BROKEN property=%s %s" % (self.pid, b))
            self.write_evidence(wall, len(new_groups), broken=True, stale=[])
            return 2
        for b in self.broken:
            # a definite violation was found by a rule that did complete; the parts that could not be analysed are listed as notes
            print("note: ANALYSIS-INCOMPLETE property=%s %s" % (self.pid, b))
        for k in kf:
            if (k["rule"], k["site"]) in matched:
                print("KNOWN-FINDING: property=%s %s [%s]: %s" % (self.pid, k["site"], k["rule"], k["what"]))
        stale = [k for k in kf if (k["rule"], k["site"]) not in matched and self._finding_in_tier(k)]
        for k in stale:
            print("note: STALE-FINDING property=%s %s [%s] no longer reproduced (move it to 'fixed')" % (self.pid, k["site"], k["rule"]))
        code = 0
        n = 0
        for (rule, site), vs in sorted(new_groups.items()):
            n += 1
            rp = os.path.join(REPLAY_DIR, "%s-%d.json" % (self.pid, n))
            with open(rp, "w") as fh:
                json.dump({"property": self.pid, "rule": rule, "rule_text": self.rules.get(rule, ""), "site": site, "violations": vs,
                           "how_to_rerun": "cd /verif && ./check %s --tier %s" % (self.pid, self.tier)}, fh, indent=1, default=str)
            v0 = vs[0]
            print("VIOLATION property=%s replay=%s" % (self.pid, rp))
            print("  rule %s at %s (%s): %s%s" % (rule, site, v0.get("loc", ""), v0["what"], (" [+%d more instances]" % (len(vs) - 1)) if len(vs) > 1 else ""))
            code = 1
        self.write_evidence(wall, len(new_groups), broken=False, stale=[k["site"] for k in stale])
        nh = sum(1 for o in self.obligations if o["status"] == "holds")
        print("%s %s: %d obligations, %d hold, %d known findings, %d new violations (%.1fs)" % (
            self.pid, self.tier, len(self.obligations), nh, sum(1 for o in self.obligations if o["status"] == "known-finding"), sum(len(v) for v in new_groups.values()), wall))
        return code

    def _finding_in_tier(self, k):
        t = k.get("tier")
        return t is None or t == self.tier or self.tier == "thorough"

    def write_evidence(self, wall, nviol, broken, stale):
        obs = self.obligations
        holds = [o for o in obs if o["status"] == "holds"]
        distinct = len({(o["rule"], o["site"], o.get("instance", "")) for o in obs if o.get("nontrivial")})
        samples = []
        seen_rules = set()
        for o in obs:
            if o["rule"] not in seen_rules or o["status"] != "holds":
                seen_rules.add(o["rule"])
                if len(samples) < 40:
                    samples.append({k: (v if isinstance(v, (str, int, float, bool, type(None))) else str(v)) for k, v in o.items() if k != "nontrivial"})
        cov = {
            "evaluations": len(obs),
            "distinct_nontrivial": distinct,
            "rule": "obligations are generated per rule instance (rule x function instantiation x site); distinct = distinct (rule, site, instance) "
                    "triples whose body contains at least one check/sink/route event. Rules: " + "; ".join("%s: %s" % kv for kv in sorted(self.rules.items())),
            "samples": samples,
            "obligations": len(obs),
            "discharged": len(holds),
            "explanation": "static analysis of /repo's current working tree: facts extracted by the factdump clang plugin from instantiation drivers "
                           "(units listed under 'units'), rules evaluated by the path-sensitive structural engine / interval evaluator / compiler-judged witnesses as named in each rule.",
            "units": self.units,
            "checker_cmd": "cd /verif && ./check %s --tier %s" % (self.pid, self.tier),
            "trusted_base": ["clang 14 frontend (template instantiation, constant evaluation, record layout)", "factdump extractor", "sa/ rule engine"],
            "known_findings_matched": sum(1 for o in obs if o["status"] == "known-finding"),
            "stale_findings": stale,
            "analysis_broken": self.broken,
        }
        cov.update(self.extra)
        ev = {
            "property_id": self.pid,
            "tier": self.tier,
            "seed": self.seed,
            "level": self.level,
            "coverage": cov,
            "assumptions": self.assumptions,
            "wall_s": round(wall, 2),
            "violations": nviol,
        }
        with open(os.path.join(EVIDENCE_DIR, "%s.json" % self.pid), "w") as fh:
            json.dump(ev, fh, indent=1, default=str)
