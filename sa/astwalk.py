"""Sequential walk over the instantiated AST of a function body (facts JSON), shared by the exact (interval) rules.

The walk keeps an environment decl id -> initialiser / last assigned expression, inlines calls to helper functions and lambdas
that have a body (parameters are bound to the caller's argument expressions), and recognises abort checks in every form the
code base (or a refactoring of it) may use:
    check(cond, msg)                     a function that returns only if its first argument held (semantic recogniser)
    if (c) { <always aborts> }           throw / noreturn call / abort() / check(false, msg) / a helper or lambda that always aborts
    if (c) { ... } else { <always aborts> }
Clients subclass Hooks."""
from .common import is_check_fn

MAX_INLINE_DEPTH = 4


class Hooks:
    def check(self, cond, positive, loc):
        """an abort check: execution continues only if cond is true (positive) / false (not positive)"""

    def decl(self, v):
        """a local variable declaration (after its initialiser was recorded in env)"""

    def assign(self, e):
        """an assignment / compound assignment expression statement (env already updated for plain locals)"""

    def call(self, e, inlined):
        """any other call expression met as a statement or inside an initialiser (e: the call node)"""

    def other(self, e):
        """an expression statement that is none of the above"""

    def branch(self, st):
        """a genuine run-time branch (neither side always aborts); default: walk both sides sequentially is NOT sound for
        value rules - clients that need exactness raise"""
        raise Unhandled("run-time branch at %s" % st.get("loc"))

    def ret(self, e, depth):
        """a return statement (depth 0 = the root function)"""

    def loop(self, st):
        """a loop / switch / try statement: not interpreted by the walk; exact clients raise"""
        raise Unhandled("%s statement at %s" % (st.get("s"), st.get("loc")))


class Unhandled(Exception):
    pass


def strip(e):
    while isinstance(e, dict) and e.get("k") in ("paren",) or (isinstance(e, dict) and e.get("k") in ("icast", "cast") and e.get("ck") in ("NoOp", "LValueToRValue")):
        e = e["e"]
    return e


def const_false(e):
    e = strip(e)
    return isinstance(e, dict) and "cv" in e and int(e["cv"]) == 0


class Walker:
    def __init__(self, db, hooks, env=None):
        self.db, self.h = db, hooks
        self.env = env if env is not None else {}
        self._aborts = {}
        self.lambdas = {}

    # ------------------------------------------------------------------ always-aborting statements
    def callee(self, e):
        fn = e.get("fn") if isinstance(e, dict) else None
        if not fn or "id" not in fn:
            return None
        f = self.db.fn_by_id.get(fn["id"])
        if f is None and fn["id"] in self.lambdas:
            return self.lambdas[fn["id"]]
        if f is None or "body" not in f or f.get("dep"):
            return None
        return f

    def note_lambdas(self, x):
        """lambda expressions met so far: their call operators can be inlined like helpers (the closure object is args[0])"""
        stack = [x]
        while stack:
            y = stack.pop()
            if isinstance(y, dict):
                if y.get("k") == "lambda" and "body" in y and (y.get("fn") or {}).get("id") is not None:
                    self.lambdas[y["fn"]["id"]] = {"id": y["fn"]["id"], "n": y["fn"].get("n") or "lambda", "lambda": True, "closure_call": True,
                                                 "params": y.get("params") or [], "body": y["body"]}
                stack.extend(v for v in y.values() if isinstance(v, (dict, list)))
            elif isinstance(y, list):
                stack.extend(v for v in y if isinstance(v, (dict, list)))

    def call_always_aborts(self, e, depth=0):
        fn = e.get("fn") or {}
        if fn.get("noret") or fn.get("n") in ("abort", "std::abort", "std::terminate", "exit", "std::exit"):
            return True
        if is_check_fn(self.db, fn) and e.get("args") and const_false(e["args"][0]):
            return True
        f = self.callee(e)
        if f is not None and depth < MAX_INLINE_DEPTH and not is_check_fn(self.db, fn):
            key = f["id"]
            if key not in self._aborts:
                self._aborts[key] = False  # recursion guard
                self._aborts[key] = self.always_aborts(f["body"], depth + 1)
            return self._aborts[key]
        return False

    def always_aborts(self, s, depth=0):
        if s is None:
            return False
        k = s.get("s")
        if k == "block":
            return any(self.always_aborts(x, depth) for x in s["b"])
        if k == "expr":
            e = s["e"]
            if e.get("k") == "throw":
                return True
            if e.get("k") == "call":
                return self.call_always_aborts(e, depth)
            if e.get("k") == "bin" and e.get("op") == ",":
                return self.always_aborts({"s": "expr", "e": e["r"]}, depth) or self.always_aborts({"s": "expr", "e": e["l"]}, depth)
            return False
        if k == "if":
            return self.always_aborts(s.get("then"), depth) and self.always_aborts(s.get("else"), depth)
        return False

    # ------------------------------------------------------------------ the walk
    def walk(self, st, depth=0):
        """returns True when control cannot continue past st (always aborts / returns)"""
        s = st.get("s")
        if s == "block":
            for x in st["b"]:
                if self.walk(x, depth):
                    return True
            return False
        if s == "decl":
            for v in st["v"]:
                if v.get("sa"):
                    continue
                if "init" in v:
                    self.note_lambdas(v["init"])
                    self.scan_calls(v["init"], depth)
                    self.env[v["d"]] = v["init"]
                self.h.decl(v)
            return False
        if s == "expr":
            return self.expr_stmt(st["e"], depth)
        if s == "if":
            self.scan_calls(st["c"], depth)
            ta, ea = self.always_aborts(st.get("then")), self.always_aborts(st.get("else"))
            if ta and st.get("else") is None:
                self.h.check(st["c"], False, st.get("loc"))
                return False
            if ta and st.get("else") is not None and not ea:
                self.h.check(st["c"], False, st.get("loc"))
                return self.walk(st["else"], depth)
            if ea and not ta:
                self.h.check(st["c"], True, st.get("loc"))
                return self.walk(st["then"], depth)
            if ta and ea:
                return True
            # `if (c) return;` in an inlined helper followed by an always-aborting rest is handled by the semantic check recogniser;
            # anything else is a run-time branch
            self.h.branch(st)
            return False
        if s in ("ret", "return"):
            if st.get("e") is not None:
                self.scan_calls(st["e"], depth)
            self.h.ret(st.get("e"), depth)
            return True
        if s in ("null", None):
            return False
        if s in ("for", "while", "do", "forrange", "switch", "try"):
            self.h.loop(st)
            return False
        raise Unhandled("statement %s at %s" % (s, st.get("loc")))

    def bind_and_walk(self, f, e, depth):
        args = e.get("args") or []
        if f.get("closure_call"):
            args = args[1:]  # the closure object
        for p_, a in zip(f["params"], args):
            if "d" in p_:
                self.env[p_["d"]] = a
                # a by-value parameter of an inlined helper is a local initialised with the argument
                if not (p_.get("t") or {}).get("ref"):
                    self.h.decl({"d": p_["d"], "n": p_.get("n"), "t": p_.get("t"), "init": a, "param": True})
        self.walk(f["body"], depth + 1)

    def expr_stmt(self, e, depth):
        k = e.get("k")
        if k in ("cast", "icast") and e.get("ck") == "ToVoid":
            return False
        if k == "call":
            fn = e.get("fn") or {}
            if is_check_fn(self.db, fn) and e.get("args"):
                if const_false(e["args"][0]):
                    return True
                self.scan_calls(e["args"][0], depth)
                self.h.check(e["args"][0], True, e.get("loc"))
                return False
            if self.call_always_aborts(e, depth):
                return True
            f = self.callee(e)
            if f is not None and depth < MAX_INLINE_DEPTH and (f["n"].startswith("rlbox::") or f.get("lambda")):
                self.h.call(e, True)
                self.bind_and_walk(f, e, depth)
                return False
            self.h.call(e, False)
            return False
        if k == "bin" and e.get("op") in ("=", "+=", "-=", "*="):
            l = strip(e["l"])
            self.scan_calls(e["r"], depth)
            if isinstance(l, dict) and l.get("k") == "un" and l.get("op") == "*":
                # `*out = v` where the out-parameter was bound to `&local` by an inlined helper call: an assignment to that local
                p_ = strip(l["e"])
                for _ in range(4):
                    if isinstance(p_, dict) and p_.get("k") == "ref" and p_.get("d") in self.env:
                        p_ = strip(self.env[p_["d"]])
                    else:
                        break
                if isinstance(p_, dict) and p_.get("k") == "un" and p_.get("op") == "&" and strip(p_["e"]).get("k") == "ref":
                    l = dict(strip(p_["e"]), dk="local")
            if isinstance(l, dict) and l.get("k") == "ref" and l.get("dk") == "local":
                d_ = l["d"]
                if e["op"] == "=":
                    self.env[d_] = e["r"]
                elif d_ in self.env:
                    self.env[d_] = {"k": "bin", "op": e["op"][0], "l": self.env[d_], "r": e["r"], "t": e.get("t") or l.get("t"), "loc": e.get("loc")}
            self.h.assign(e)
            return False
        self.h.other(e)
        return False

    def scan_calls(self, x, depth):
        """calls nested inside an expression: helpers with bodies are walked (their checks count), others reported"""
        stack = [x]
        while stack:
            y = stack.pop()
            if isinstance(y, dict):
                if y.get("k") == "call":
                    fn = y.get("fn") or {}
                    f = self.callee(y)
                    if is_check_fn(self.db, fn):
                        pass
                    elif f is not None and depth < MAX_INLINE_DEPTH and f["n"].startswith("rlbox::") and not f["n"].startswith("rlbox::rlbox_sandbox::") and has_checks(self, f):
                        self.h.call(y, True)
                        self.bind_and_walk(f, y, depth)
                    else:
                        self.h.call(y, False)
                stack.extend(v for v in y.values() if isinstance(v, (dict, list)))
            elif isinstance(y, list):
                stack.extend(v for v in y if isinstance(v, (dict, list)))


def has_checks(w, f, depth=0):
    """does f's body (transitively, shallow) contain an abort check / containment call worth walking into?"""
    found = [False]

    def rec(x, d):
        if found[0]:
            return
        if isinstance(x, dict):
            if x.get("s") == "if" or (x.get("k") == "call" and (is_check_fn(w.db, x.get("fn")) or (x.get("fn") or {}).get("n", "").endswith("is_in_same_sandbox"))):
                found[0] = True
                return
            if x.get("k") == "call" and d < 2:
                g = w.callee(x)
                if g is not None and g["n"].startswith("rlbox::"):
                    rec(g["body"], d + 1)
            for v in x.values():
                if isinstance(v, (dict, list)):
                    rec(v, d)
        elif isinstance(x, list):
            for v in x:
                rec(v, d)

    rec(f["body"], depth)
    return found[0]
