"""Query helpers over engine paths (shared by the structural rule modules)."""
from .engine import Engine, Inconclusive, lin, C, is_const, fmt, cmp_, truthy, neg, subterms

_cache = {}


def paths(db, fn, **kw):
    key = (id(db), fn["id"], tuple(sorted(kw.items())))
    if key not in _cache:
        _cache[key] = Engine(db, **kw).run(fn)
    return _cache[key]


EXCLUSIVE_GUARDS = ("lock_guard", "unique_lock", "scoped_lock")   # RAII guards that hold their mutex exclusively
SHARED_GUARDS = ("shared_lock",)
ALL_GUARDS = EXCLUSIVE_GUARDS + SHARED_GUARDS


def short(name):
    return (name or "").split("::")[-1]


def conds_before(path, i):
    return resolve([e.a for e in path.events[:i] if e.kind == "ASSUME"])


def same_observer_calls(t):
    """const observers of a container (size, empty) called repeatedly with nothing in between yield one value: drop the call ids"""
    if not isinstance(t, tuple):
        return t
    if t[:1] == ("ucall",) and len(t) >= 5 and short(t[2]) in ("size", "empty", "max_size", "capacity") and not t[3]:
        return ("call", t[2], (), same_observer_calls(t[4]))
    return tuple(same_observer_calls(x) for x in t)


def resolve(conds):
    conds = list(conds)
    # unit resolution: (A || B) together with !A gives B (e.g. a search loop left by `i == N || a[i] == key`, then `i != N` checked)
    from .engine import neg
    known = set(c for c in conds if isinstance(c, tuple))
    changed = True
    while changed:
        changed = False
        for c in list(known):
            # a <= b together with a != b gives a < b
            if isinstance(c, tuple) and c[:2] == ("cmp", "<="):
                for ne in (("cmp", "!=", c[2], c[3]), ("cmp", "!=", c[3], c[2])):
                    if ne in known and ("cmp", "<", c[2], c[3]) not in known:
                        known.add(("cmp", "<", c[2], c[3]))
                        conds.append(("cmp", "<", c[2], c[3]))
                        changed = True
            if isinstance(c, tuple) and c[:1] == ("or",):
                for a, b in ((c[1], c[2]), (c[2], c[1])):
                    try:
                        na = neg(a)
                    except Exception:
                        continue
                    # an unsigned quantity (size(), strlen ...) that is `<= 0` is `== 0`
                    unsigned_zero = isinstance(a, tuple) and a[:2] == ("cmp", "<=") and a[3] == ("c", 0) and isinstance(a[2], tuple) and a[2][:1] in (("call",), ("ucall",)) and \
                        short(a[2][1] if a[2][0] == "call" else a[2][2]) in ("size", "length", "strlen", "max_size", "capacity") and ("cmp", "!=", a[2], ("c", 0)) in known
                    if (na in known or unsigned_zero) and b not in known:
                        known.add(b)
                        conds.append(b)
                        changed = True
            if isinstance(c, tuple) and c[:1] == ("and",):
                for a in c[1:3]:
                    if a not in known:
                        known.add(a)
                        conds.append(a)
                        changed = True
    return conds


def assume_events_before(path, i):
    return [e for e in path.events[:i] if e.kind == "ASSUME"]


def is_call(t, shortname):
    return isinstance(t, tuple) and t and ((t[0] == "call" and short(t[1]) == shortname) or (t[0] == "ucall" and short(t[2]) == shortname))


def call_args(t):
    return t[2] if t[0] == "call" else t[3]


def nonnull(conds, p):
    if isinstance(p, tuple) and p and p[0] in ("decay", "addr", "fn", "str", "strobj"):
        return True  # address of an existing object
    return cmp_("!=", p, C(0)) in conds


def is_null_assumed(conds, p):
    return cmp_("==", p, C(0)) in conds


def same_sandbox_facts(conds):
    """list of (a, b) such that is_in_same_sandbox(a, b) was assumed true"""
    out = []
    for c in conds:
        if c[0] == "cmp" and c[1] == "!=" and c[3] == C(0) and is_call(c[2], "impl_is_in_same_sandbox"):
            a = call_args(c[2])
            out.append((a[0], a[1]))
    return out


def in_sandbox_facts(conds):
    out = []
    for c in conds:
        if c[0] == "cmp" and c[1] == "!=" and c[3] == C(0) and is_call(c[2], "impl_is_pointer_in_sandbox_memory"):
            out.append(call_args(c[2])[0])
    return out


def established_extents(conds, p):
    """extents n such that is_in_same_sandbox(p, p+n-1) holds on this path"""
    out = []
    for a, b in same_sandbox_facts(conds):
        if a == p:
            out.append(lin("+", lin("-", b, a), C(1)))
    return out


def bounded_by_total(conds, n):
    for c in conds:
        if c[0] == "cmp" and c[1] in ("<=", "<") and c[2] == n and is_call(c[3], "impl_get_total_memory"):
            return True
    return False


def upper_bounds(conds, t):
    """constants / terms u with t <= u or t < u assumed"""
    out = []
    for c in conds:
        if c[0] == "cmp" and c[1] in ("<=", "<") and c[2] == t:
            out.append((c[1], c[3]))
    return out


def diff_const(a, b):
    """a - b if it is a constant, else None"""
    d = lin("-", a, b)
    return d[1] if is_const(d) else None


def stack_site(ev, skip_detail=True):
    """deepest function on the event's inline stack that is not an rlbox::detail helper"""
    for name, _loc in reversed(ev.stack):
        if skip_detail and (name.startswith("rlbox::detail::") or name.startswith("lambda@")):
            continue
        return name
    return None


def mentions(t, pred):
    return any(pred(x) for x in subterms(t))


def sequential_view(path):
    """The same path under single-threaded ('for every input') semantics: repeated reads of a sandbox cell that RLBox itself does not
    write on this path yield the same value, so every (vrd id lv) becomes (rd lv).  Properties quantified over schedules (C09) must
    NOT use this view; properties quantified over inputs only (C07, C10) do."""
    from .engine import PathResult, Ev
    written = set()
    for e in path.events:
        if e.kind == "STORE":
            written.add(e.a)
    memo = {}

    def m(t):
        if not isinstance(t, tuple):
            if isinstance(t, list):
                return [m(x) for x in t]
            return t
        r = memo.get(t)
        if r is not None:
            return r
        if t[:1] == ("vrd",) and len(t) == 3 and t[2] not in written:
            r = ("rd", m(t[2]))
        else:
            r = tuple(m(x) for x in t)
        memo[t] = r
        return r

    evs = []
    for e in path.events:
        ex = e.extra
        if ex:
            ex = dict(ex)
            for k in ("ret", "argvals", "target"):
                if k in ex:
                    ex[k] = m(ex[k])
        evs.append(Ev(e.kind, m(e.a) if isinstance(e.a, (tuple, list)) else e.a, m(e.b) if isinstance(e.b, (tuple, list)) else e.b, m(e.c) if isinstance(e.c, (tuple, list)) else e.c, e.loc, e.loop, e.stack, ex))
    return PathResult(evs, m(path.retval) if isinstance(path.retval, tuple) else path.retval, path.state)


def loop_bound_ok(path, i, iv, N):
    """does the loop variable iv (a per-iteration value) range over exactly 0 .. N-1 at event i?  Either the iteration is guarded
    by `iv < N`, or by `iv != N` together with a start at 0 and a step of exactly +1 (the while / iterator-style spelling)."""
    from .engine import C, lin
    conds = conds_before(path, i)
    if ("cmp", "<", iv, C(N)) in conds:
        return True
    if ("cmp", "!=", iv, C(N)) in conds and isinstance(iv, tuple) and iv[:1] == ("havoc",):
        if any(e.kind == "COUNTER" and e.a == iv for e in path.events):
            return True     # the engine's own iteration counter of a lockstep loop: starts at 0, one step per iteration
        name = iv[-1]
        init0 = any(e.kind == "DECL" and e.b == name and e.c == C(0) for e in path.events)
        step1 = any(e.kind == "STORE" and isinstance(e.a, tuple) and e.a[:1] == ("var",) and e.a[-1] == name and e.b == lin("+", iv, C(1)) for e in path.events)
        return init0 and step1
    return False


def iterator_position(path, x):
    """abstract position of the iterator object x at the end of the path (engine: exec_iterator_loop): ('elem', elem term) |
    ('end', container) | None; follows copies and the iterator -> const_iterator converting constructor"""
    for _ in range(8):
        if not isinstance(x, tuple):
            return None
        if x[:1] == ("addr",):
            x = x[1]
        v = path.state.mem.get(x)
        if isinstance(v, tuple) and v[:1] == ("iter",):
            return v[1], v[2]
        c = path.state.mem.get(("copyof", x))
        if c is not None:
            x = c
            continue
        conv = next((e for e in path.events if e.kind == "CALL" and (e.extra or {}).get("ret") == x and short(e.a) in ("__normal_iterator", "__wrap_iter") and len(e.b) == 1), None)
        if conv is not None:
            x = conv.b[0]
            continue
        return None
    return None


def under_equalities(conds, t):
    """term t with every sub-term x replaced by c for each path condition x == c (c constant)"""
    from .engine import C, lin, mul, is_const
    eqs = {}
    for c in conds:
        if isinstance(c, tuple) and c[:2] == ("cmp", "==") and is_const(c[3]) and not is_const(c[2]):
            eqs[c[2]] = c[3]
    if not eqs:
        return t

    def sub(x):
        if x in eqs:
            return eqs[x]
        if isinstance(x, tuple) and x[:1] == ("lin",):
            acc = C(x[1])
            for y, k in x[2]:
                acc = lin("+", acc, mul(C(k), sub(y)))
            return acc
        return x
    return sub(t)


def erased_index(path, arg, is_container):
    """if `arg` (the argument of an erase) is `container.begin() + I` (also through the iterator -> const_iterator conversion),
    the index term I (casts stripped); else None"""
    from .rules.ops import strip_casts
    a0 = arg
    for _ in range(4):
        conv = next((e for e in path.events if e.kind == "CALL" and (e.extra or {}).get("ret") == a0 and short(e.a) in ("__normal_iterator", "__wrap_iter") and len(e.b) == 1), None)
        if conv is None:
            break
        a0 = ((conv.extra or {}).get("argvals") or conv.b)[0]
    if isinstance(a0, tuple) and a0[:1] == ("ucall",) and short(a0[2]) == "operator+" and len(a0[3]) == 1 and isinstance(a0[4], tuple) and \
            mentions(a0[4], lambda x: isinstance(x, tuple) and x[:1] == ("ucall",) and short(x[2]) in ("begin", "cbegin") and is_container(x[4])):
        return strip_casts(a0[3][0])
    return None


def indexed_equal(conds, is_container, I, value):
    """do the path conditions contain container[I] == value (operator[] / at, any call id)?"""
    from .rules.ops import strip_casts
    unrd = lambda t: t[1] if isinstance(t, tuple) and t[:1] == ("rd",) else t
    for c in conds:
        if isinstance(c, tuple) and c[:2] == ("cmp", "=="):
            for x, y in ((unrd(c[2]), c[3]), (unrd(c[3]), c[2])):
                if isinstance(x, tuple) and x[:1] == ("ucall",) and short(x[2]) in ("operator[]", "at") and len(x[3]) == 1 and strip_casts(x[3][0]) == I and is_container(x[4]) and y == value:
                    return True
    return False


def unwrap_entry(path, x):
    """the content of a one-member entry object (`entry_t{key}` pushed into / searched for in a private container instead of the bare
    key): the value of its only member; x itself when it is not such an object"""
    y = x
    for _ in range(4):
        if isinstance(y, tuple) and y[:1] in (("var",), ("tmp",)):
            flds = [(k, v) for k, v in path.state.mem.items() if isinstance(k, tuple) and k[:2] == ("fld", y)]
            if flds:
                return flds[0][1] if len(flds) == 1 else x
            nx = path.state.mem.get(("copyof", y)) or path.state.mem.get(("alias", y))
            if nx is None:
                return x
            y = nx
        else:
            return x
    return x
