"""Exact interval-set evaluator for integer guards over ONE integer variable.

A value is a list of pieces (lo, hi, a, b): for x in [lo,hi] the value is a*x+b
(unbounded Python ints).  Integral casts wrap modulo 2^w exactly as the AST's
cast nodes say; comparisons, &&, ||, ! yield sub-sets of the variable's domain.
Everything outside this expression class raises Inconclusive (never a verdict).
"""

MAX_PIECES = 1 << 14


class Inconclusive(Exception):
    pass


def trange(t):
    if t.get("k") == "bool":
        return (0, 1)
    if t.get("k") not in ("int", "enum") or "w" not in t:
        raise Inconclusive("not an integer type: %s" % t.get("c"))
    w = t["w"]
    return (-(1 << (w - 1)), (1 << (w - 1)) - 1) if t.get("sg") else (0, (1 << w) - 1)


def merge(iv):
    iv = sorted(iv)
    out = []
    for a, b in iv:
        if a > b:
            continue
        if out and a <= out[-1][1] + 1:
            out[-1] = (out[-1][0], max(out[-1][1], b))
        else:
            out.append((a, b))
    return out


def intersect(A, B):
    out = []
    for a, b in A:
        for c, d in B:
            lo, hi = max(a, c), min(b, d)
            if lo <= hi:
                out.append((lo, hi))
    return merge(out)


def complement(A, dom):
    out = []
    for lo, hi in dom:
        cur = lo
        for a, b in A:
            if b < cur or a > hi:
                continue
            if a > cur:
                out.append((cur, a - 1))
            cur = max(cur, b + 1)
        if cur <= hi:
            out.append((cur, hi))
    return merge(out)


def size(A):
    return sum(b - a + 1 for a, b in A)


def wrap_pieces(pieces, t):
    lo_t, hi_t = trange(t)
    if t.get("k") == "bool":
        return tobool(pieces)
    mod = 1 << t["w"]
    out = []
    for lo, hi, a, b in pieces:
        if a == 0:
            v = (b - lo_t) % mod + lo_t
            out.append((lo, hi, 0, v))
            continue
        x = lo
        while x <= hi:
            v = a * x + b
            q = (v - lo_t) // mod
            # largest x' >= x with same q
            if a > 0:
                vend = lo_t + (q + 1) * mod - 1  # a*x'+b <= vend
                xe = (vend - b) // a
            else:
                vstart = lo_t + q * mod  # a*x'+b >= vstart, a<0 => x' <= (vstart-b)/a
                xe = (b - vstart) // (-a)
            xe = min(hi, xe)
            out.append((x, xe, a, b - q * mod))
            x = xe + 1
            if len(out) > MAX_PIECES:
                raise Inconclusive("too many pieces")
    return out


def tobool(pieces):
    out = []
    for lo, hi, a, b in pieces:
        if a == 0:
            out.append((lo, hi, 0, 1 if b != 0 else 0))
            continue
        if (-b) % a == 0 and lo <= (-b) // a <= hi:
            z = (-b) // a
            if lo <= z - 1:
                out.append((lo, z - 1, 0, 1))
            out.append((z, z, 0, 0))
            if z + 1 <= hi:
                out.append((z + 1, hi, 0, 1))
        else:
            out.append((lo, hi, 0, 1))
    return out


def region(s, d, a, b, op):
    """sub-intervals of [a,b] where s*x+d op 0 (exact, integers)"""
    if a > b:
        return []
    if s == 0:
        import operator
        f = {"<": operator.lt, "<=": operator.le, ">": operator.gt, ">=": operator.ge, "==": operator.eq, "!=": operator.ne}[op]
        return [(a, b)] if f(d, 0) else []
    if s < 0:
        flip = {"<": ">", "<=": ">=", ">": "<", ">=": "<=", "==": "==", "!=": "!="}
        return region(-s, -d, a, b, flip[op])
    # s > 0
    if op == "<":
        hi = (-d - 1) // s
        return merge([(a, min(b, hi))])
    if op == "<=":
        hi = (-d) // s
        return merge([(a, min(b, hi))])
    if op == ">":
        lo = (-d) // s + 1
        return merge([(max(a, lo), b)])
    if op == ">=":
        lo = -(d // s)
        return merge([(max(a, lo), b)])
    if op == "==":
        if (-d) % s == 0 and a <= (-d) // s <= b:
            z = (-d) // s
            return [(z, z)]
        return []
    if op == "!=":
        eq = region(s, d, a, b, "==")
        return complement(eq, [(a, b)])
    raise Inconclusive("op " + op)


import re as _re
FUNCTORS = {"plus": "+", "minus": "-", "multiplies": "*"}
FUNCTOR_RE = _re.compile(r"^std::(plus|minus|multiplies)<.*>::operator\(\)$")


class Evaluator:
    def __init__(self, var_ids, env=None, const_env=None, ptr_zero=False, db=None):
        """var_ids: set of decl ids that denote the free variable; env: decl id -> init expression.
        ptr_zero: pointer-typed leaves evaluate to 0 (offsets relative to an unknown base, arithmetic modulo 2^64)
        db: facts (optional) - calls to small value helpers with a body are evaluated through their return expression"""
        self.var_ids = set(var_ids)
        self.env = env if env is not None else {}
        self.ptr_zero = ptr_zero
        self.db = db
        self._depth = 0

    @staticmethod
    def _strip(e):
        while isinstance(e, dict) and (e.get("k") == "paren" or (e.get("k") in ("icast", "cast") and e.get("ck") in ("NoOp", "LValueToRValue")) or
                                       (e.get("k") in ("mtemp", "bindtemp", "exprwc") and "e" in e)):
            e = e["e"]
        return e

    def pointee(self, e):
        """the expression designated by `*p` when p is a local / parameter known to hold `&x` (helpers taking their operands by pointer)"""
        p = self._strip(e)
        for _ in range(4):
            if isinstance(p, dict) and p.get("k") == "ref" and p.get("d") in self.env and p["d"] not in self.var_ids:
                p = self._strip(self.env[p["d"]])
            else:
                break
        if isinstance(p, dict) and p.get("k") == "un" and p.get("op") == "&":
            return p["e"]
        return None

    def helper_result(self, e):
        """the return expression of a call to a helper whose body is straight-line (declarations, compile-time-constant ifs, one
        return), with its parameters bound to the argument expressions in env; None when the callee is not of that shape"""
        if self.db is None or self._depth > 3:
            return None
        fn = e.get("fn") or {}
        f = self.db.fn_by_id.get(fn.get("id"))
        if f is None or "body" not in f or f.get("dep") or not (f.get("n") or "").startswith("rlbox::"):
            return None
        args = list(e.get("args") or [])
        if e.get("opcall") and e.get("member"):
            args = args[1:]
        if len(args) != len(f["params"]):
            return None
        for p_, a in zip(f["params"], args):
            if "d" in p_:
                self.env[p_["d"]] = a

        def find_ret(st):
            k = st.get("s")
            if k == "block":
                for x in st["b"]:
                    r = find_ret(x)
                    if r is not None:
                        return r
                return None
            if k == "decl":
                for v in st["v"]:
                    if "init" in v and not v.get("sa"):
                        self.env[v["d"]] = v["init"]
                return None
            if k == "if":
                c = self._strip(st["c"])
                if isinstance(c, dict) and "cv" in c:
                    br = st.get("then") if int(c["cv"]) else st.get("else")
                    return find_ret(br) if br is not None else None
                raise Inconclusive("run-time branch in value helper %s" % f["n"])
            if k in ("ret", "return"):
                return st.get("e")
            if k in ("null", None):
                return None
            if k == "expr" and (st["e"].get("k") in ("cast", "icast") and st["e"].get("ck") == "ToVoid"):
                return None
            raise Inconclusive("statement %s in value helper %s" % (k, f["n"]))
        return find_ret(f["body"])

    def ev(self, e, S):
        k = e["k"]
        if "cv" in e and not (k == "ref" and e["d"] in self.var_ids):
            c = int(e["cv"])
            return [(lo, hi, 0, c) for lo, hi in S]
        if k == "ref":
            if e["d"] in self.var_ids:
                return [(lo, hi, 1, 0) for lo, hi in S]
            if e["d"] in self.env:
                # a pointer-typed local may have been formed from an integer expression (`const void* to = (const void*)target`)
                if self.ptr_zero and (e.get("t") or {}).get("k") in ("ptr", "fnptr"):
                    try:
                        return self.ev(self.env[e["d"]], S)
                    except Inconclusive:
                        return [(lo, hi, 0, 0) for lo, hi in S]
                return self.ev(self.env[e["d"]], S)
            if self.ptr_zero and (e.get("t") or {}).get("k") in ("ptr", "fnptr"):
                return [(lo, hi, 0, 0) for lo, hi in S]
            raise Inconclusive("reference to %s" % e.get("n"))
        if self.ptr_zero and k == "call" and (e.get("t") or {}).get("k") in ("ptr", "fnptr"):
            return [(lo, hi, 0, 0) for lo, hi in S]
        if k in ("icast", "cast"):
            ck = e["ck"]
            sub = self.ev(e["e"], S)
            if ck in ("LValueToRValue", "NoOp"):
                return sub
            if self.ptr_zero and ck in ("PointerToIntegral", "IntegralToPointer", "BitCast"):
                return sub
            if ck == "IntegralCast":
                return wrap_pieces(sub, e["t"])
            if ck == "IntegralToBoolean":
                return tobool(sub)
            raise Inconclusive("cast " + ck)
        if k == "un" and e["op"] == "-":
            sub = self.ev(e["e"], S)
            return wrap_pieces([(lo, hi, -a, -b) for lo, hi, a, b in sub], e["t"])
        if k == "un" and e["op"] == "+":
            return self.ev(e["e"], S)
        if k == "bin" and e["op"] in ("+", "-", "*"):
            L = self.ev(e["l"], S)
            R = self.ev(e["r"], S)
            out = []
            for lo, hi, pl, pr in self._refine(L, R, S):
                if e["op"] == "+":
                    out.append((lo, hi, pl[2] + pr[2], pl[3] + pr[3]))
                elif e["op"] == "-":
                    out.append((lo, hi, pl[2] - pr[2], pl[3] - pr[3]))
                else:
                    if pl[2] != 0 and pr[2] != 0:
                        raise Inconclusive("non-linear product")
                    if pl[2] == 0:
                        out.append((lo, hi, pl[3] * pr[2], pl[3] * pr[3]))
                    else:
                        out.append((lo, hi, pr[3] * pl[2], pr[3] * pl[3]))
            return wrap_pieces(out, e["t"])
        if k == "bin" and e["op"] in ("<", "<=", ">", ">=", "==", "!=", "&&", "||") or (k == "un" and e["op"] == "!"):
            T = self.sat(e, S)
            F = complement(T, S)
            return sorted([(lo, hi, 0, 1) for lo, hi in T] + [(lo, hi, 0, 0) for lo, hi in F])
        if k == "call" and FUNCTOR_RE.match((e.get("fn") or {}).get("n") or "") and len(e.get("args") or []) in (2, 3):
            # transparent standard functor: the plain operator on its operands (the first argument of a member call is the object)
            a = e["args"][-2:]
            op = FUNCTORS[FUNCTOR_RE.match(e["fn"]["n"]).group(1)]
            return self.ev({"k": "bin", "op": op, "l": a[0], "r": a[1], "t": e.get("t"), "loc": e.get("loc")}, S)
        if k == "sizeof" and "cv" in e:
            return [(lo, hi, 0, int(e["cv"])) for lo, hi in S]
        if k == "un" and e["op"] == "*":
            tgt = self.pointee(e["e"])
            if tgt is not None:
                return self.ev(tgt, S)
        if k in ("paren", "mtemp", "bindtemp", "exprwc") and "e" in e:
            return self.ev(e["e"], S)
        if k == "call":
            r = self.helper_result(e)
            if r is not None:
                self._depth += 1
                try:
                    return self.ev(r, S)
                finally:
                    self._depth -= 1
        raise Inconclusive("expression kind %s%s" % (k, (" " + e.get("op", "")) if k in ("bin", "un") else ""))

    def _refine(self, L, R, S):
        pts = sorted(set([p[0] for p in L] + [p[0] for p in R]))
        out = []
        for lo, hi in S:
            cuts = [x for x in pts if lo < x <= hi]
            a = lo
            for c in cuts + [hi + 1]:
                b = c - 1
                if a > b:
                    continue
                pl = next((p for p in L if p[0] <= a <= p[1]), None)
                pr = next((p for p in R if p[0] <= a <= p[1]), None)
                if pl is None or pr is None:
                    raise Inconclusive("piece lookup")
                out.append((a, b, pl, pr))
                a = b + 1
        return out

    def sat(self, e, S):
        """subset of S (list of intervals) where boolean expression e is true; exact"""
        k = e["k"]
        if "cv" in e and not (k == "ref" and e["d"] in self.var_ids):
            return list(S) if int(e["cv"]) != 0 else []
        if k == "bin" and e["op"] in ("<", "<=", ">", ">=", "==", "!="):
            L = self.ev(e["l"], S)
            R = self.ev(e["r"], S)
            res = []
            for a, b, pl, pr in self._refine(L, R, S):
                res += region(pl[2] - pr[2], pl[3] - pr[3], a, b, e["op"])
            return merge(res)
        if k == "bin" and e["op"] == "&&":
            return self.sat(e["r"], self.sat(e["l"], S))
        if k == "bin" and e["op"] == "||":
            A = self.sat(e["l"], S)
            return merge(A + self.sat(e["r"], complement(A, S)))
        if k == "un" and e["op"] == "!":
            return complement(self.sat(e["e"], S), S)
        if k in ("icast", "cast") and e["ck"] in ("NoOp", "LValueToRValue"):
            return self.sat(e["e"], S)
        if k in ("icast", "cast") and e["ck"] == "IntegralToBoolean":
            P = self.ev(e, S)
            return merge([(lo, hi) for lo, hi, a, b in P if a == 0 and b == 1])
        if k == "ref" and e["d"] in self.env:
            return self.sat(self.env[e["d"]], S)
        if k == "un" and e["op"] == "*" and self.pointee(e["e"]) is not None:
            return self.sat(self.pointee(e["e"]), S)
        if k in ("paren", "mtemp", "bindtemp", "exprwc") and "e" in e:
            return self.sat(e["e"], S)
        if k == "ref" and e["d"] in self.var_ids:
            P = tobool(self.ev(e, S))
            return merge([(lo, hi) for lo, hi, a, b in P if b == 1])
        raise Inconclusive("condition kind %s" % k)
