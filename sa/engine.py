"""Path-sensitive structural evaluator over factdump facts (Engine B core).

Starting at an instantiated function, bodies of callees defined in the analysed
headers are inlined; expressions become normalised *terms*; each structured path
(if / early return / one generic loop iteration) becomes a linear list of
*events*:

  ASSUME(cond)        a branch condition or the surviving side of an abort check
  CALL(name,args,..)  call of a function that is not inlined (backend impl_*, libc, std)
  STORE(lv, val)      assignment through an lvalue
  VREAD(lv)           load from a volatile-qualified lvalue (sandbox memory)
  RET(val)

Paths that reach `throw` or a noreturn call are dropped (that is how abort checks
are recognised *semantically*: `if(!c) abort()` in any wrapper leaves ASSUME(c) on
the surviving path).  Infeasible paths are pruned syntactically only (a condition
assumed both ways, constant conditions); no solver is involved.
"""
import itertools

from .facts import AnalysisBroken

MAX_PATHS = 6000
MAX_DEPTH = 24


class Inconclusive(Exception):
    pass


# ---------------------------------------------------------------- terms
def C(n):
    return ("c", int(n))


NULL = C(0)
TRUE = C(1)
FALSE = C(0)


def is_const(t):
    return isinstance(t, tuple) and t and t[0] == "c"


def lin(op, a, b):
    def tolin(t):
        if t[0] == "lin":
            return t[1], dict(t[2])
        if t[0] == "c":
            return t[1], {}
        return 0, {t: 1}

    ca, da = tolin(a)
    cb, db = tolin(b)
    sg = 1 if op == "+" else -1
    c = ca + sg * cb
    dd = dict(da)
    for k, v in db.items():
        dd[k] = dd.get(k, 0) + sg * v
    dd = {k: v for k, v in dd.items() if v}
    if not dd:
        return C(c)
    if c == 0 and len(dd) == 1 and list(dd.values())[0] == 1:
        return list(dd)[0]
    return ("lin", c, tuple(sorted(dd.items(), key=repr)))


def mul(a, b):
    if is_const(a) and is_const(b):
        return C(a[1] * b[1])
    if is_const(b):
        a, b = b, a
    if is_const(a):
        if a[1] == 1:
            return b
        if a[1] == 0:
            return C(0)
        # distribute constant over linear forms
        if b[0] == "lin":
            return ("lin", b[1] * a[1], tuple((k, v * a[1]) for k, v in b[2]))
        return ("lin", 0, ((b, a[1]),))
    x, y = sorted((a, b), key=repr)
    return ("mul", x, y)


def neg(t):
    """logical negation with normalisation"""
    if is_const(t):
        return C(0 if t[1] else 1)
    if t[0] == "not":
        return t[1]
    if t[0] == "cmp":
        # orderings are kept in one orientation (< and <= only), like cmp_ does: !(a < b) is (b <= a)
        if t[1] in ("==", "!="):
            return ("cmp", "!=" if t[1] == "==" else "==", t[2], t[3])
        inv = {"<": "<=", "<=": "<", ">": "<=", ">=": "<"}
        if t[1] in ("<", "<="):
            return ("cmp", inv[t[1]], t[3], t[2])
        return ("cmp", inv[t[1]], t[2], t[3])
    if t[0] == "and":
        return ("or", neg(t[1]), neg(t[2]))
    if t[0] == "or":
        return ("and", neg(t[1]), neg(t[2]))
    return ("not", t)


def cmp_(op, a, b):
    if is_const(a) and is_const(b):
        import operator

        f = {"==": operator.eq, "!=": operator.ne, "<": operator.lt, "<=": operator.le, ">": operator.gt, ">=": operator.ge}[op]
        return C(1 if f(a[1], b[1]) else 0)
    if op in ("==", "!="):
        if a == b:
            return C(1 if op == "==" else 0)
        for x, y in ((a, b), (b, a)):
            if isinstance(x, tuple) and x and x[0] in ("fn", "str", "addr", "strobj", "decay") and y == C(0):
                return C(0 if op == "==" else 1)
        # two distinct complete objects (locals / temporaries of the path; a local against an object that was passed in) have
        # different addresses
        if isinstance(a, tuple) and isinstance(b, tuple) and a[:1] == ("addr",) and b[:1] == ("addr",) and len(a) == 2 and len(b) == 2 and \
                isinstance(a[1], tuple) and isinstance(b[1], tuple) and a[1] != b[1] and \
                a[1][:1] in (("var",), ("tmp",), ("pobj",)) and b[1][:1] in (("var",), ("tmp",), ("pobj",)) and \
                (a[1][:1] != ("pobj",) or b[1][:1] != ("pobj",)):
            return C(0 if op == "==" else 1)
        # constants to the right
        if is_const(a) or (not is_const(b) and repr(a) > repr(b)):
            a, b = b, a
        # k*x + c == d  <=>  x == (d-c)/k  (the term algebra is over the integers)
        if is_const(b) and isinstance(a, tuple) and a[:1] == ("lin",) and len(a[2]) == 1 and a[2][0][1] not in (0, 1):
            x_, k_ = a[2][0]
            num = b[1] - a[1]
            if num % k_ == 0:
                return cmp_(op, x_, C(num // k_))
            return C(0 if op == "==" else 1)
        # comparison of a boolean-valued term with 0/1
        if is_const(b) and a[0] in ("cmp", "not", "and", "or"):
            if (op == "!=" and b[1] == 0) or (op == "==" and b[1] == 1):
                return a
            if (op == "==" and b[1] == 0) or (op == "!=" and b[1] == 1):
                return neg(a)
        return ("cmp", op, a, b)
    if op in (">", ">="):
        flip = {">": "<", ">=": "<="}
        return ("cmp", flip[op], b, a)
    return ("cmp", op, a, b)


def truthy(t):
    """term -> boolean condition term"""
    if is_const(t):
        return C(1 if t[1] else 0)
    if t[0] in ("fn", "str", "addr", "strobj", "decay", "closure"):
        return C(1)  # address of a function / object / literal is never null
    if t[0] in ("cmp", "not", "and", "or"):
        return t
    return cmp_("!=", t, C(0))


def subterms(t):
    if isinstance(t, tuple):
        yield t
        for x in t:
            if isinstance(x, tuple):
                yield from subterms(x)


def contains(t, sub):
    return any(x == sub for x in subterms(t))


def fmt(t, depth=0):
    """human readable rendering"""
    if not isinstance(t, tuple) or not t:
        return str(t)
    k = t[0]
    if depth > 12:
        return "..."
    f = lambda x: fmt(x, depth + 1)
    if k == "c":
        return str(t[1])
    if k == "p":
        return t[1]
    if k == "this":
        return "this"
    if k == "var":
        return "%s" % t[2]
    if k == "tmp":
        return "tmp%s" % t[1]
    if k == "pobj":
        return "*&%s" % t[1]
    if k == "fld":
        return "%s.%s" % (f(t[1]), t[2])
    if k == "deref":
        return "(*%s)" % f(t[1])
    if k == "addr":
        return "&%s" % f(t[1])
    if k == "idx":
        return "%s[%s]" % (f(t[1]), f(t[2]))
    if k == "rd":
        return "%s" % f(t[1])
    if k == "lin":
        parts = []
        for a, c in t[2]:
            parts.append(("%s" % f(a)) if c == 1 else ("%d*%s" % (c, f(a))))
        if t[1]:
            parts.append(str(t[1]))
        return "(" + " + ".join(parts) + ")"
    if k == "mul":
        return "(%s * %s)" % (f(t[1]), f(t[2]))
    if k == "cmp":
        return "(%s %s %s)" % (f(t[2]), t[1], f(t[3]))
    if k == "not":
        return "!%s" % f(t[1])
    if k in ("and", "or"):
        return "(%s %s %s)" % (f(t[1]), "&&" if k == "and" else "||", f(t[2]))
    if k == "bin":
        return "(%s %s %s)" % (f(t[2]), t[1], f(t[3]))
    if k == "un":
        return "%s%s" % (t[1], f(t[2]))
    if k in ("cast", "xcast"):
        return "(%s)%s" % (t[1], f(t[2]))
    if k in ("call", "ucall"):
        name = t[1] if k == "call" else t[2]
        args = t[2] if k == "call" else t[3]
        return "%s(%s)" % (name.split("::")[-1], ", ".join(f(a) for a in args))
    if k == "closure":
        return "lambda@%s" % t[1]
    if k == "havoc":
        return "%s'" % t[2]
    if k == "str":
        return '"%s"' % (t[1][:20] if t[1] else "")
    if k == "new":
        return "new#%s" % t[1]
    return "(" + " ".join(f(x) if isinstance(x, tuple) else str(x) for x in t) + ")"


# ---------------------------------------------------------------- state
class Frame:
    __slots__ = ("fid", "fn", "binds", "this", "cleanups", "parent_closure", "depth", "ret_is_ref")

    def __init__(self, fid, fn, this, depth, ret_is_ref=False):
        self.fid = fid
        self.fn = fn
        self.binds = {}  # decl id -> lvalue term
        self.this = this
        self.cleanups = []  # list of lists (scopes) of (objlv, recname, rid)
        self.parent_closure = None
        self.depth = depth
        self.ret_is_ref = ret_is_ref

    def clone(self):
        f = Frame(self.fid, self.fn, self.this, self.depth, self.ret_is_ref)
        f.binds = dict(self.binds)
        f.cleanups = [list(s) for s in self.cleanups]
        f.parent_closure = self.parent_closure
        return f


class State:
    __slots__ = ("events", "mem", "frames", "status", "retval", "loopdepth", "conds", "callstack")

    def __init__(self):
        self.events = []
        self.mem = {}
        self.frames = {}  # fid -> Frame
        self.status = "run"  # run | ret | abort | break | continue
        self.retval = None
        self.loopdepth = 0
        self.conds = set()
        self.callstack = ()

    def clone(self):
        s = State()
        s.events = list(self.events)
        s.mem = dict(self.mem)
        s.frames = {k: v.clone() for k, v in self.frames.items()}
        s.status = self.status
        s.retval = self.retval
        s.loopdepth = self.loopdepth
        s.conds = set(self.conds)
        s.callstack = self.callstack
        return s


class Ev:
    """event record"""
    __slots__ = ("kind", "a", "b", "c", "loc", "loop", "stack", "extra")

    def __init__(self, kind, a=None, b=None, c=None, loc=None, loop=0, stack=(), extra=None):
        self.kind, self.a, self.b, self.c, self.loc, self.loop, self.stack, self.extra = kind, a, b, c, loc, loop, stack, extra

    def __repr__(self):
        if self.kind == "ASSUME":
            return "ASSUME %s  @%s" % (fmt(self.a), self.loc)
        if self.kind == "CALL":
            return "CALL %s(%s)%s -> %s @%s" % (self.a, ", ".join(fmt(x) for x in self.b), (" on " + fmt(self.c)) if self.c else "", fmt(self.extra.get("ret")) if self.extra else "", self.loc)
        if self.kind == "STORE":
            return "STORE %s := %s @%s" % (fmt(self.a), fmt(self.b), self.loc)
        if self.kind in ("VREAD", "MREAD"):
            return "%s %s @%s" % (self.kind, fmt(self.a), self.loc)
        if self.kind == "RET":
            return "RET %s" % fmt(self.a)
        if self.kind == "DECL":
            return "DECL %s%s @%s" % (self.b, (" = " + fmt(self.c)) if self.c is not None else "", self.loc)
        if self.kind in ("CTOR", "COPY", "DTOR", "UNLOCK"):
            return "%s %s %s" % (self.kind, fmt(self.a), fmt(self.b) if isinstance(self.b, tuple) else (self.b or ""))
        return "%s %s" % (self.kind, self.a if self.a is not None else "")


IDENTITY_FUNCS = {"std::move", "std::forward", "std::as_const", "std::launder"}
PURE_PREFIXES = ("impl_is_", "impl_get_total_memory", "impl_get_memory_location", "impl_get_unsandboxed_pointer",
                 "impl_get_sandboxed_pointer", "numeric_limits")
ABORT_FUNCS = {"abort", "std::abort", "exit", "std::exit", "std::terminate", "__assert_fail", "std::__throw_bad_function_call"}


FUNCTORS = {"plus": "+", "minus": "-", "multiplies": "*", "divides": "/", "modulus": "%", "bit_and": "&", "bit_or": "|", "bit_xor": "^",
            "equal_to": "==", "not_equal_to": "!=", "less": "<", "greater": ">", "less_equal": "<=", "greater_equal": ">="}
import re as _re
FUNCTOR_RE = _re.compile(r"^std::(%s)<.*>::operator\(\)$" % "|".join(FUNCTORS))
UNARY_FUNCTOR_RE = _re.compile(r"^std::(negate|bit_not|logical_not)<.*>::operator\(\)$")


def strip_targs_name(n):
    """qualified name with template argument lists removed"""
    out, depth = [], 0
    for ch in n:
        if ch == "<":
            depth += 1
        elif ch == ">":
            depth -= 1
        elif depth == 0:
            out.append(ch)
    return "".join(out)


class Engine:
    def __init__(self, db, inline_filter=None, max_depth=MAX_DEPTH, max_paths=MAX_PATHS, no_inline=(), opaque_backend=True):
        self.db = db
        self.opaque_backend = opaque_backend
        self.uid = itertools.count(1)
        self.max_depth = max_depth
        self.max_paths = max_paths
        self.inline_filter = inline_filter
        self.no_inline = set(no_inline)
        self.npaths = 0
        self.dtor_cache = {}

    # ------------------------------------------------------------ helpers
    def fresh(self, kind, name=""):
        return (kind, next(self.uid), name)

    def emit(self, st, kind, a=None, b=None, c=None, loc=None, extra=None):
        st.events.append(Ev(kind, a, b, c, loc, st.loopdepth, st.callstack, extra))

    def assume(self, st, cond, loc, kind="branch"):
        """returns False if the path becomes infeasible"""
        cond = truthy(cond)
        if is_const(cond):
            return bool(cond[1])
        if neg(cond) in st.conds:
            return False
        # a == c1 assumed and now a == c2 / a != c1
        if cond[0] == "cmp" and cond[1] == "==" and is_const(cond[3]):
            for c in st.conds:
                if c[0] == "cmp" and c[1] == "==" and c[2] == cond[2] and is_const(c[3]) and c[3] != cond[3]:
                    return False
        if cond[0] == "and":
            return self.assume(st, cond[1], loc, kind) and self.assume(st, cond[2], loc, kind)
        st.conds.add(cond)
        self.emit(st, "ASSUME", cond, loc=loc, extra={"kind": kind})
        return True

    def load(self, st, lv, vol=False, loc=None, ty=None):
        if is_const(lv):
            return lv  # a prvalue constant bound to a const reference: reading through the reference yields the constant
        if vol:
            root = lv
            while root[0] in ("fld", "idx"):
                root = root[1]
            local = root[0] in ("tmp", "var")
            self.emit(st, "VREAD", lv, loc=loc, extra={"t": ty, "local": local})
            if local:
                # a volatile-qualified *view* of an application-side local object: an ordinary load
                return self.load(st, lv)
            return ("vrd", next(self.uid), lv)
        if lv in st.mem:
            return st.mem[lv]
        # fall back along copy chains
        base, path = lv, []
        while base[0] in ("fld", "idx"):
            path.append(base)
            base = base[1]
            src = st.mem.get(("copyof", base))
            if src is not None:
                new = src
                for p in reversed(path):
                    new = (p[0], new) + p[2:]
                return self.load(st, new)
        if lv[0] in ("tmp", "var") and lv in st.mem:
            return st.mem[lv]
        cg = self.constexpr_global(lv, st)
        if cg is not None:
            return cg
        return ("rd", lv)

    def constexpr_global(self, lv, st=None):
        """value of a member (or element) of a constexpr object with static storage whose initialiser is an aggregate of constants:
        `static constexpr descriptor d{A, B}` ... `d.from`"""
        if isinstance(lv, tuple) and lv[:1] == ("global",) and len(lv) == 2 and isinstance(lv[1], str):
            # a constexpr static SCALAR initialised with a function's address or a constant (`static constexpr T_Fn finder = &find;`):
            # looked up under its full name, so that each instantiation of a class template gets its own member's value
            if not hasattr(self, "_cx_scalars"):
                self._cx_scalars = {}
                for sv in getattr(self.db, "statics", []) or []:
                    if sv.get("init") is not None and sv.get("cx") and sv.get("n"):
                        self._cx_scalars.setdefault(sv["n"], sv)
            sv = self._cx_scalars.get(lv[1])
            if sv is None or (sv.get("t") or {}).get("k") not in ("ptr", "fnptr", "int", "bool", "enum"):
                return None
            a = self._strip_e(sv["init"])
            if isinstance(a, dict) and a.get("k") == "un" and a.get("op") == "&":
                a = self._strip_e(a["e"])
            if isinstance(a, dict) and a.get("k") == "ref" and a.get("dk") == "fn":
                return ("fn", a["fn"]["n"], a["fn"]["id"])
            if isinstance(a, dict) and "cv" in a and (sv.get("t") or {}).get("k") in ("int", "bool", "enum"):
                return C(int(a["cv"]))
            return None
        if not (isinstance(lv, tuple) and lv[:1] in (("fld",), ("idx",)) and isinstance(lv[1], tuple) and lv[1][:1] == ("global",)):
            return None
        if not hasattr(self, "_cx_statics"):
            self._cx_statics = {}
            for sv in getattr(self.db, "statics", []) or []:
                if sv.get("init") is not None and sv.get("cx"):
                    self._cx_statics.setdefault(strip_targs_name(sv.get("n") or ""), sv)
        sv = self._cx_statics.get(strip_targs_name(lv[1][1]))
        if sv is None:
            return None
        ini = self._strip_e(sv["init"])
        while isinstance(ini, dict) and ini.get("k") in ("ctor", "construct") and len(ini.get("args") or []) == 1:
            ini = self._strip_e(ini["args"][0])
        if not (isinstance(ini, dict) and ini.get("k") == "initlist"):
            return None
        args = ini.get("args") or []
        if lv[0] == "idx":
            if not is_const(lv[2]):
                # read at a symbolic index: the table's elements are remembered so that rules can relate the index to them
                if st is not None and ("statictable", lv[1]) not in st.mem:
                    elems = []
                    for a_ in args:
                        a_ = self._strip_e(a_)
                        if isinstance(a_, dict) and "cv" in a_:
                            elems.append(C(int(a_["cv"])))
                        elif isinstance(a_, dict) and a_.get("k") == "un" and a_.get("op") == "&" and self._strip_e(a_["e"]).get("k") == "ref" and self._strip_e(a_["e"]).get("dk") == "fn":
                            fn_ = self._strip_e(a_["e"])["fn"]
                            elems.append(("addr", ("fn", fn_["n"], fn_["id"])))
                        elif isinstance(a_, dict) and a_.get("k") == "ref" and a_.get("dk") == "fn":
                            elems.append(("fn", a_["fn"]["n"], a_["fn"]["id"]))
                        else:
                            elems = None
                            break
                    if elems:
                        st.mem[("statictable", lv[1])] = tuple(elems)
                return None
            if not (0 <= lv[2][1] < len(args)):
                return None
            a = self._strip_e(args[lv[2][1]])
        else:
            rec = self.db.rec_by_id.get((sv.get("t") or {}).get("rid")) or {}
            names = [fl["n"] for fl in rec.get("fields", [])]
            if lv[2] not in names or names.index(lv[2]) >= len(args):
                return None
            a = self._strip_e(args[names.index(lv[2])])
        if isinstance(a, dict) and "cv" in a:
            return C(int(a["cv"]))
        return None

    def store(self, st, lv, val, loc=None, vol=False, ty=None):
        st.mem[lv] = val
        # invalidate sub-objects
        for k in [k for k in st.mem if k != lv and isinstance(k, tuple) and k[0] in ("fld", "idx") and self._prefix(lv, k)]:
            del st.mem[k]
        self.emit(st, "STORE", lv, val, loc=loc, extra={"vol": vol, "t": ty})

    @staticmethod
    def _prefix(base, lv):
        while lv[0] in ("fld", "idx"):
            lv = lv[1]
            if lv == base:
                return True
        return False

    @staticmethod
    def _at(obj, path):
        for n_ in path:
            obj = ("fld", obj, n_)
        return obj

    def scalar_leaves(self, rid, depth=0):
        """member paths of a small aggregate made of scalars (nested aggregates of scalars included); None for anything else"""
        if not hasattr(self, "_leaves"):
            self._leaves = {}
        if rid in self._leaves:
            return self._leaves[rid]
        rec = self.db.rec_by_id.get(rid) if rid is not None else None
        out = None
        if rec and not (rec.get("n") or "").startswith("std::") and rec.get("fields") and len(rec["fields"]) <= 8 and depth < 3 and not rec.get("bases"):
            out = []
            for fl in rec["fields"]:
                ft = fl.get("t") or {}
                if self.is_rec(ft):
                    sub = self.scalar_leaves(ft.get("rid"), depth + 1)
                    if sub is None:
                        out = None
                        break
                    out += [(fl["n"],) + p_ for p_ in sub]
                elif ft.get("k") in ("int", "bool", "enum", "ptr", "fnptr", "float") and not ft.get("ref"):
                    out.append((fl["n"],))
                else:
                    out = None
                    break
        self._leaves[rid] = out
        return out

    def copy_object(self, st, dst, src):
        if dst == src:
            return
        for k in [k for k in st.mem if isinstance(k, tuple) and (k == dst or (k[0] in ("fld", "idx") and self._prefix(dst, k)))]:
            del st.mem[k]
        for k, v in list(st.mem.items()):
            if isinstance(k, tuple) and k and k[0] == "copyof":
                continue
            if k == src:
                st.mem[dst] = v
            elif isinstance(k, tuple) and k[0] in ("fld", "idx") and self._prefix(src, k):
                st.mem[self._rebase(k, src, dst)] = v
        st.mem[("copyof", dst)] = st.mem.get(("copyof", src), src)

    def _rebase(self, lv, src, dst):
        if lv == src:
            return dst
        return (lv[0], self._rebase(lv[1], src, dst)) + lv[2:]

    @staticmethod
    def deref(p):
        if p[0] == "addr":
            return p[1]
        return ("deref", p)

    @staticmethod
    def addr(o):
        if o[0] == "deref":
            return o[1]
        return ("addr", o)

    @staticmethod
    def std_array_extent(t):
        """N of a std::array<T, N> type, else None"""
        import re
        if not t or t.get("k") != "rec":
            return None
        m = re.match(r"^(?:const |volatile )*std::array<.*, (\d+)>$", (t.get("c") or "").strip())
        return int(m.group(1)) if m else None

    @staticmethod
    def elem_pos(p):
        """(array lvalue, index term) when the pointer value p is the address of an array element (a decayed array is element 0)"""
        if isinstance(p, tuple) and p[:1] == ("decay",):
            return p[1], C(0)
        if isinstance(p, tuple) and p[:1] == ("addr",) and isinstance(p[1], tuple) and p[1][:1] == ("idx",):
            return p[1][1], p[1][2]
        return None

    def elem_advance(self, p, n):
        """pointer to an array element moved by n elements stays a pointer to an element of the same array: &A[i] + n == &A[i+n]"""
        ep = self.elem_pos(p)
        if ep is None:
            return None
        return ("addr", ("idx", ep[0], lin("+", ep[1], n)))

    def is_rec(self, t):
        return bool(t) and t.get("k") == "rec"

    # ------------------------------------------------------------ expression evaluation
    # every ev* returns a list of (state, term)
    def ev_args(self, st, fr, args, modes):
        """evaluate list of expressions; modes[i] in ('v','lv')"""
        outs = [(st, [])]
        for a, m in zip(args, modes):
            nxt = []
            for s, acc in outs:
                for s2, t in (self.ev_lv(s, fr, a) if m == "lv" else self.ev(s, fr, a)):
                    nxt.append((s2, acc + [t]))
            outs = nxt
        return outs

    def ev(self, st, fr, e):
        """value of expression (for class types: the object term)"""
        if e is None:
            return [(st, ("void",))]
        k = e["k"]
        t = e.get("t") or {}
        if "cv" in e and k != "ctor":
            return [(st, C(e["cv"]))]
        if k in ("icast", "cast"):
            return self.ev_cast(st, fr, e)
        if k == "lit":
            return [(st, C(e.get("cv", 0)))]
        if k == "flit":
            return [(st, ("flit", e.get("loc")))]
        if k == "null":
            return [(st, NULL)]
        if k == "str":
            return [(st, ("str", e.get("v", "")))]
        if k == "this":
            return [(st, fr.this)]
        if k == "sizeof":
            if "cv" in e:
                return [(st, C(e["cv"]))]
            return [(st, ("sizeof", (e.get("arg") or {}).get("c")))]
        if k in ("ref", "member", "idx") or (k == "un" and e["op"] == "*"):
            # glvalue used where a value is wanted (class object or function ref / enum const)
            if k == "ref" and e.get("dk") == "fn":
                return [(st, ("fn", e["fn"]["n"], e["fn"]["id"]))]
            if k == "ref" and e.get("dk") == "enumc":
                return [(st, C(e["cv"]) if "cv" in e else ("enumc", e["n"]))]
            if k == "member" and "fn" in e:
                return [(st, ("fn", e["fn"]["n"], e["fn"]["id"]))]
            return self.ev_lv(st, fr, e)
        if k == "un":
            op = e["op"]
            if op == "&":
                return [(s, self.addr(lv)) for s, lv in self.ev_lv(st, fr, e["e"])]
            if op in ("++", "--"):
                outs = []
                for s, lv in self.ev_lv(st, fr, e["e"]):
                    old = self.load(s, lv)
                    new = self.elem_advance(old, C(1 if op == "++" else -1))
                    if new is None:
                        new = lin("+" if op == "++" else "-", old, C(1))
                    self.store(s, lv, new, loc=e.get("loc"))
                    outs.append((s, old if e.get("post") else new))
                return outs
            outs = []
            for s, v in self.ev(st, fr, e["e"]):
                if op == "!":
                    outs.append((s, neg(truthy(v))))
                elif op == "-":
                    outs.append((s, lin("-", C(0), v)))
                elif op == "+":
                    outs.append((s, v))
                else:
                    outs.append((s, ("un", op, v)))
            return outs
        if k == "bin":
            return self.ev_bin(st, fr, e)
        if k == "cond":
            outs = []
            for s, c in self.ev(st, fr, e["c"]):
                c = truthy(c)
                if is_const(c):
                    outs += self.ev(s, fr, e["l"] if c[1] else e["r"])
                    continue
                s2 = s.clone()
                if self.assume(s, c, e.get("loc")):
                    outs += self.ev(s, fr, e["l"])
                if self.assume(s2, neg(c), e.get("loc")):
                    outs += self.ev(s2, self._fr(s2, fr), e["r"])
            return outs
        if k == "call":
            return self.ev_call(st, fr, e)
        if k == "ctor":
            return self.ev_ctor(st, fr, e)
        if k == "lambda":
            obj = self.fresh("tmp", "lambda")
            st.mem[obj] = ("closure", e.get("loc"), id(e), fr.fid)
            self._closures[id(e)] = e
            return [(st, obj)]
        if k == "throw":
            st.status = "abort"
            return [(st, ("void",))]
        if k == "new":
            outs = [(st, None)]
            if e.get("n"):
                outs = self.ev(st, fr, e["n"])
            res = []
            for s, n in outs:
                p = ("new", next(self.uid), (e.get("alloc") or {}).get("c"))
                self.emit(s, "CALL", "operator new", [n] if n is not None else [], None, loc=e.get("loc"), extra={"ret": p, "alloc": e.get("alloc"), "array": e.get("array")})
                res.append((s, p))
            return res
        if k == "delete":
            outs = []
            for s, v in self.ev(st, fr, e["e"]):
                self.emit(s, "CALL", "operator delete", [v], None, loc=e.get("loc"), extra={"ret": ("void",)})
                outs.append((s, ("void",)))
            return outs
        if k == "initlist":
            if self.is_rec(t) or t.get("k") == "array":
                obj = self.fresh("tmp", "init")
                outs = [(st, 0)]
                rec_ = self.db.rec_by_id.get(t.get("rid")) if self.is_rec(t) else None
                fnames = [fl["n"] for fl in (rec_ or {}).get("fields", [])]
                for i, a in enumerate(e["args"]):
                    nxt = []
                    for s, _ in outs:
                        for s2, v in self.ev(s, fr, a):
                            s2.mem[("idx", obj, C(i))] = v
                            if i < len(fnames):
                                s2.mem[("fld", obj, fnames[i])] = v   # aggregate initialisation: members in declaration order
                            nxt.append((s2, 0))
                    outs = nxt
                return [(s, obj) for s, _ in outs]
            if len(e["args"]) == 1:
                return self.ev(st, fr, e["args"][0])
            return [(st, C(0))]
        if k == "zeroinit":
            return [(st, C(0))]
        if k == "stmtexpr":
            return [(s, ("void",)) for s in self.exec(st, fr, e["body"])]
        if k in ("packexp", "fold", "umember", "dmember", "ulookup", "dref", "uctor"):
            raise Inconclusive("dependent expression %s in instantiated code at %s" % (k, e.get("loc")))
        if k == "noexcept":
            return [(st, C(e.get("cv", 0)))]
        if k == "other":
            if e.get("cls") == "PredefinedExpr":
                return [(st, ("str", "__func__"))]
            outs = [(st, None)]
            for kid in e.get("kids", []):
                if kid and "k" in kid:
                    outs = [(s2, v) for s, _ in outs for s2, v in self.ev(s, self._fr(s, fr), kid)]
            return [(s, ("other", e.get("cls"), next(self.uid))) for s, _ in outs]
        raise Inconclusive("unhandled expression kind %s at %s" % (k, e.get("loc")))

    def _fr(self, st, fr):
        """the frame object belonging to state st corresponding to fr"""
        return st.frames[fr.fid]

    def ev_lv(self, st, fr, e):
        """lvalue (object designator) of a glvalue expression; for prvalues of class type the temp object"""
        k = e["k"]
        if k == "ref":
            d = e["d"]
            dk = e.get("dk")
            if dk == "fn":
                return [(st, ("fn", e["fn"]["n"], e["fn"]["id"]))]
            if dk == "global":
                return [(st, ("global", e.get("qn") or e["n"]))]
            f = fr
            while f is not None:
                if d in f.binds:
                    return [(st, f.binds[d])]
                f = st.frames.get(f.parent_closure) if f.parent_closure is not None else None
            # unknown (e.g. structured binding / outer scope): symbolic object
            lv = ("var", "free:%d" % d, e["n"])
            return [(st, lv)]
        if k == "member":
            if e.get("static"):
                return [(st, ("global", e.get("qn") or e["n"]))]
            if "fn" in e:
                return [(st, ("fn", e["fn"]["n"], e["fn"]["id"]))]
            outs = []
            if e.get("arrow"):
                for s, p in self.ev(st, fr, e["e"]):
                    lv_ = ("fld", self.deref(p), e["n"])
                    outs.append((s, s.mem.get(("refbind", lv_), lv_)))
            else:
                for s, o in self.ev_lv(st, fr, e["e"]):
                    lv_ = ("fld", o, e["n"])
                    outs.append((s, s.mem.get(("refbind", lv_), lv_)))
            return outs
        if k == "this":
            return [(st, fr.this)]
        if k == "un" and e["op"] == "*":
            return [(s, self.deref(p)) for s, p in self.ev(st, fr, e["e"])]
        if k == "un" and e["op"] in ("++", "--") and not e.get("post"):
            outs = []
            for s, lv in self.ev_lv(st, fr, e["e"]):
                old = self.load(s, lv)
                new = self.elem_advance(old, C(1 if e["op"] == "++" else -1))
                self.store(s, lv, new if new is not None else lin("+" if e["op"] == "++" else "-", old, C(1)), loc=e.get("loc"))
                outs.append((s, lv))
            return outs
        if k == "idx":
            outs = []
            bt = e["l"].get("t") or {}
            for s, (b, i) in [(s, ts) for s, ts in self.ev_args(st, fr, [e["l"], e["r"]], ["v", "v"])]:
                # base is a pointer value (possibly decayed array address)
                if b[0] == "addr":
                    outs.append((s, ("idx", b[1], i)))
                elif b[0] == "decay":
                    outs.append((s, ("idx", b[1], i)))
                else:
                    esz = (bt.get("ptesz") if bt else None)
                    outs.append((s, ("idx", self.deref(b), i)))
            return outs
        if k in ("icast", "cast"):
            ck = e["ck"]
            if ck in ("NoOp", "UncheckedDerivedToBase", "DerivedToBase", "BaseToDerived", "LValueBitCast", "ConstructorConversion", "UserDefinedConversion"):
                return self.ev_lv(st, fr, e["e"])
            if ck == "Dependent":
                raise Inconclusive("dependent cast")
            # prvalue cast used as object (rare)
            return self.ev(st, fr, e)
        if k == "bin" and e["op"] == "=":
            return self.ev_assign(st, fr, e, want_lv=True)
        if k == "bin" and e["op"] == ",":
            outs = []
            for s, _ in self.ev(st, fr, e["l"]):
                outs += self.ev_lv(s, self._fr(s, fr), e["r"])
            return outs
        if k == "bin" and e["op"].endswith("=") and e["op"] not in ("==", "!=", "<=", ">="):
            return self.ev_compound(st, fr, e, want_lv=True)
        if k == "cond":
            outs = []
            for s, c in self.ev(st, fr, e["c"]):
                c = truthy(c)
                if is_const(c):
                    outs += self.ev_lv(s, fr, e["l"] if c[1] else e["r"])
                    continue
                s2 = s.clone()
                if self.assume(s, c, e.get("loc")):
                    outs += self.ev_lv(s, fr, e["l"])
                if self.assume(s2, neg(c), e.get("loc")):
                    outs += self.ev_lv(s2, self._fr(s2, fr), e["r"])
            return outs
        if k in ("call", "ctor", "lambda", "initlist", "str", "zeroinit", "new", "stmtexpr"):
            outs = []
            for s, v in self.ev(st, fr, e):
                t = e.get("t") or {}
                if k == "call" and not self.is_rec(t) and not t.get("ref") and not e.get("lv") and not (e.get("xv") and (e.get("fn") or {}).get("n") == "std::get"):
                    # scalar prvalue bound to a reference: materialise
                    if isinstance(v, tuple) and v[:1] == ("tmp",) and v[-1] == "mat" and v in s.mem and (e.get("fn") or {}).get("n") in IDENTITY_FUNCS:
                        outs.append((s, v))     # std::forward / std::move of an already materialised temporary: that temporary
                        continue
                    obj = self.fresh("tmp", "mat")
                    s.mem[obj] = v
                    outs.append((s, obj))
                elif k in ("str",):
                    outs.append((s, ("strobj", v)))
                elif k in ("zeroinit", "new"):
                    obj = self.fresh("tmp", "mat")
                    s.mem[obj] = v
                    outs.append((s, obj))
                else:
                    outs.append((s, v))
            return outs
        # prvalue scalar where an lvalue is wanted (temporary materialisation)
        outs = []
        for s, v in self.ev(st, fr, e):
            obj = self.fresh("tmp", "mat")
            s.mem[obj] = v
            outs.append((s, obj))
        return outs

    def ev_cast(self, st, fr, e):
        ck = e["ck"]
        sub = e["e"]
        tt = e.get("t") or {}
        if ck == "LValueToRValue":
            stt = sub.get("t") or {}
            outs = []
            for s, lv in self.ev_lv(st, fr, sub):
                if self.is_rec(stt):
                    outs.append((s, lv))
                else:
                    if not stt.get("vol"):
                        root = lv
                        while isinstance(root, tuple) and root and root[0] in ("fld", "idx"):
                            root = root[1]
                        if isinstance(root, tuple) and root[:1] == ("deref",) and root[1] != ("this",):
                            # non-volatile load through a pointer: recorded so that rules can see host-typed reads of sandbox memory
                            self.emit(s, "MREAD", lv, loc=e.get("loc"), extra={"t": stt})
                    outs.append((s, self.load(s, lv, vol=bool(stt.get("vol")), loc=e.get("loc"), ty=stt)))
            return outs
        if ck in ("ArrayToPointerDecay",):
            return [(s, self.addr(("idx", lv, C(0))) if False else ("decay", lv)) for s, lv in self.ev_lv(st, fr, sub)]
        if ck == "FunctionToPointerDecay":
            return self.ev(st, fr, sub)
        if ck in ("NoOp", "BitCast", "UncheckedDerivedToBase", "DerivedToBase", "BaseToDerived", "IntegralToPointer",
                  "PointerToIntegral", "ConstructorConversion", "UserDefinedConversion", "NullToPointer", "LValueBitCast",
                  "ReinterpretMemberPointer", "AddressSpaceConversion", "NonAtomicToAtomic", "AtomicToNonAtomic"):
            stt = sub.get("t") or {}
            if ck == "NullToPointer":
                outs = self.ev(st, fr, sub)
                return [(s, NULL) for s, _ in outs]
            if ck in ("NoOp", "ConstructorConversion", "UserDefinedConversion") and (self.is_rec(tt) or sub.get("lv")) and not (sub["k"] in ("icast", "cast") and sub["ck"] == "LValueToRValue"):
                if e.get("lv") or self.is_rec(tt):
                    return self.ev_lv(st, fr, sub)
            return self.ev(st, fr, sub)
        if ck == "IntegralCast":
            stt = sub.get("t") or {}
            outs = []
            for s, v in self.ev(st, fr, sub):
                if is_const(v) and "cv" in e:
                    outs.append((s, C(e["cv"])))
                elif tt.get("w") and stt.get("w") and tt["w"] < stt["w"]:
                    # narrowing: 'xcast' when written explicitly in the source, 'cast' when implicit
                    outs.append((s, self.note_cast(s, fr, ("xcast" if (e["k"] == "cast" or e.get("poe")) else "cast", tt.get("u") or tt.get("c"), v))))
                elif (e["k"] == "cast" or e.get("poe")) and tt.get("w") and stt.get("w") and tt["w"] == stt["w"] and bool(tt.get("sg")) != bool(stt.get("sg")) and tt.get("k") != "bool":
                    # an EXPLICIT same-width signedness change written in the source: kept visible (implicit usual
                    # arithmetic conversions are what the plain expression performs too and stay transparent)
                    outs.append((s, self.note_cast(s, fr, ("xcast", tt.get("u") or tt.get("c"), v))))
                else:
                    outs.append((s, v))
            return outs
        if ck in ("IntegralToBoolean", "PointerToBoolean", "FloatingToBoolean", "MemberPointerToBoolean"):
            return [(s, truthy(v)) for s, v in self.ev(st, fr, sub)]
        if ck == "ToVoid":
            return [(s, ("void",)) for s, _ in self.ev(st, fr, sub)]
        if ck in ("IntegralToFloating", "FloatingToIntegral", "FloatingCast", "BooleanToSignedIntegral"):
            return [(s, ("cast:" + ck, (tt.get("u") or ""), v)) for s, v in self.ev(st, fr, sub)]
        if ck == "Dependent":
            raise Inconclusive("dependent cast at %s" % e.get("loc"))
        if ck == "BuiltinFnToFnPtr":
            return self.ev(st, fr, sub)
        raise Inconclusive("unhandled cast kind %s at %s" % (ck, e.get("loc")))

    @staticmethod
    def note_cast(st, fr, term):
        """remember in which function(s) a value-changing integer conversion was performed (rules ask whether it was the checked routine)"""
        key = ("castorigin", term)
        st.mem[key] = tuple(sorted(set(st.mem.get(key, ()) + (fr.fn["n"],))))
        return term

    def store_conv(self, st, fr, expr, v):
        """the outermost implicit same-width signedness change of a value being stored/initialised is value-changing
        (unlike the usual arithmetic conversions inside an expression) and is kept visible"""
        if isinstance(expr, dict) and expr.get("k") == "icast" and expr.get("ck") == "IntegralCast":
            tt = expr.get("t") or {}
            stt = (expr.get("e") or {}).get("t") or {}
            if tt.get("w") and stt.get("w") and tt["w"] == stt["w"] and bool(tt.get("sg")) != bool(stt.get("sg")) and tt.get("k") != "bool" and not is_const(v):
                return self.note_cast(st, fr, ("cast", tt.get("u") or tt.get("c"), v))
        return v

    def ev_assign(self, st, fr, e, want_lv=False):
        outs = []
        lt = e["l"].get("t") or {}
        for s, lv in self.ev_lv(st, fr, e["l"]):
            f2 = self._fr(s, fr)
            for s2, v in self.ev(s, f2, e["r"]):
                if self.is_rec(lt):
                    self.copy_object(s2, lv, v)
                    self.emit(s2, "STORE", lv, v, loc=e.get("loc"), extra={"vol": bool(lt.get("vol")), "t": lt, "rec": True})
                else:
                    v = self.store_conv(s2, fr, e["r"], v)
                    self.store(s2, lv, v, loc=e.get("loc"), vol=bool(lt.get("vol")), ty=lt)
                outs.append((s2, lv if want_lv else v))
        return outs

    def ev_compound(self, st, fr, e, want_lv=False):
        op = e["op"][:-1]
        outs = []
        lt = e["l"].get("t") or {}
        for s, lv in self.ev_lv(st, fr, e["l"]):
            for s2, v in self.ev(s, self._fr(s, fr), e["r"]):
                old = self.load(s2, lv, vol=bool(lt.get("vol")), loc=e.get("loc"), ty=lt)
                new = self.binop(op, old, v)
                if op in ("+", "-") and lt.get("k") == "ptr" and self.elem_pos(old) is not None:
                    new = self.elem_advance(old, v if op == "+" else lin("-", C(0), v))
                self.store(s2, lv, new, loc=e.get("loc"), vol=bool(lt.get("vol")), ty=lt)
                outs.append((s2, lv if want_lv else new))
        return outs

    def binop(self, op, l, r):
        if op in ("+", "-"):
            return lin(op, l, r)
        if op == "*":
            return mul(l, r)
        if op in ("==", "!=", "<", "<=", ">", ">="):
            return cmp_(op, l, r)
        if op == "&&":
            a, b = truthy(l), truthy(r)
            if is_const(a):
                return b if a[1] else C(0)
            if is_const(b):
                return a if b[1] else C(0)
            return ("and", a, b)
        if op == "||":
            a, b = truthy(l), truthy(r)
            if is_const(a):
                return C(1) if a[1] else b
            if is_const(b):
                return C(1) if b[1] else a
            return ("or", a, b)
        if is_const(l) and is_const(r):
            try:
                if op in ("/", "%") and r[1]:
                    qq = abs(l[1]) // abs(r[1])
                    if (l[1] < 0) != (r[1] < 0):
                        qq = -qq
                    return C(qq) if op == "/" else C(l[1] - qq * r[1])
                if op == "&":
                    return C(l[1] & r[1])
                if op == "|":
                    return C(l[1] | r[1])
                if op == "^":
                    return C(l[1] ^ r[1])
                if op == "<<":
                    return C(l[1] << r[1])
                if op == ">>":
                    return C(l[1] >> r[1])
            except Exception:
                pass
        return ("bin", op, l, r)

    def ev_bin(self, st, fr, e):
        op = e["op"]
        if op == "=":
            return self.ev_assign(st, fr, e)
        if op == ",":
            outs = []
            for s, _ in self.ev(st, fr, e["l"]):
                outs += self.ev(s, self._fr(s, fr), e["r"])
            return outs
        if op.endswith("=") and op not in ("==", "!=", "<=", ">="):
            return self.ev_compound(st, fr, e)
        if op in ("&&", "||"):
            # short circuit: fork only when the right side has side effects (calls)
            outs = []
            for s, l in self.ev(st, fr, e["l"]):
                l = truthy(l)
                if is_const(l):
                    if (op == "&&" and not l[1]) or (op == "||" and l[1]):
                        outs.append((s, l))
                        continue
                    outs += [(s2, truthy(r)) for s2, r in self.ev(s, self._fr(s, fr), e["r"])]
                    continue
                for s2, r in self.ev(s, self._fr(s, fr), e["r"]):
                    outs.append((s2, self.binop(op, l, r)))
            return outs
        if op in (".*", "->*"):
            raise Inconclusive("member pointer op")
        outs = []
        for s, (l, r) in self.ev_args(st, fr, [e["l"], e["r"]], ["v", "v"]):
            # pointer arithmetic on typed pointers: scale by pointee size
            lt = e["l"].get("t") or {}
            rt = e["r"].get("t") or {}
            if op in ("+", "-") and lt.get("k") == "ptr" and rt.get("k") in ("int", "bool", "enum") and self.elem_pos(l) is not None:
                outs.append((s, self.elem_advance(l, r if op == "+" else lin("-", C(0), r))))
                continue
            if op == "+" and rt.get("k") == "ptr" and lt.get("k") in ("int", "bool", "enum") and self.elem_pos(r) is not None:
                outs.append((s, self.elem_advance(r, l)))
                continue
            if op == "-" and lt.get("k") == "ptr" and rt.get("k") == "ptr" and self.elem_pos(l) is not None and self.elem_pos(r) is not None and self.elem_pos(l)[0] == self.elem_pos(r)[0]:
                outs.append((s, lin("-", self.elem_pos(l)[1], self.elem_pos(r)[1])))
                continue
            if op in ("==", "!=", "<", "<=", ">", ">=") and self.elem_pos(l) is not None and self.elem_pos(r) is not None and self.elem_pos(l)[0] == self.elem_pos(r)[0]:
                # two positions in one array compare like their indices
                outs.append((s, self.binop(op, self.elem_pos(l)[1], self.elem_pos(r)[1])))
                continue
            if op in ("+", "-") and lt.get("k") == "ptr" and rt.get("k") in ("int", "bool", "enum"):
                sz = lt.get("ptesz")
                if sz is None:
                    r = ("mul", ("sizeof", lt.get("pte")), r)
                else:
                    r = mul(C(sz), r)
                if l[0] == "decay":
                    l = self.addr(("idx", l[1], C(0)))
            elif op == "+" and rt.get("k") == "ptr" and lt.get("k") in ("int", "bool", "enum"):
                sz = rt.get("ptesz")
                l = mul(C(sz), l) if sz is not None else ("mul", ("sizeof", rt.get("pte")), l)
            elif op == "-" and lt.get("k") == "ptr" and rt.get("k") == "ptr":
                outs.append((s, ("ptrdiff", l, r, lt.get("ptesz"))))
                continue
            outs.append((s, self.binop(op, l, r)))
        return outs

    # ------------------------------------------------------------ calls
    def callee_fn(self, fnref):
        if not fnref:
            return None
        f = self.db.fn_by_id.get(fnref["id"])
        if f is None or "body" not in f:
            return None
        if f["dep"]:
            return None
        if f["n"] in self.no_inline or f["sn"] in self.no_inline:
            return None
        if self.opaque_backend and f["sn"].startswith("impl_"):
            return None
        if self.inline_filter and not self.inline_filter(f):
            return None
        return f

    def global_closure(self, st, fr, g, ref_e):
        """closure value of a constexpr global whose initialiser is a lambda expression (looked up by declaration id, then by name)"""
        if not hasattr(self, "_global_lambdas"):
            self._global_lambdas = {}
            for sv in getattr(self.db, "statics", []) or []:
                ini = self._strip_e(sv.get("init")) if sv.get("init") is not None else None
                if isinstance(ini, dict) and ini.get("k") == "lambda":
                    self._global_lambdas[sv.get("d")] = ini
                    self._global_lambdas.setdefault(sv.get("n"), ini)
        ini = self._global_lambdas.get((ref_e or {}).get("d")) or self._global_lambdas.get(g[1])
        if ini is None:
            return None
        key = ("globalclosure", g, (ref_e or {}).get("d"))
        if key in st.mem:
            return st.mem[key]
        for s2, v in self.ev(st, fr, ini):
            c = s2.mem.get(v) if isinstance(v, tuple) and v[:1] in (("tmp",), ("var",)) else v
            if isinstance(c, tuple) and c[:1] == ("closure",):
                st.mem[key] = c
                return c
        return None

    def ev_call(self, st, fr, e):
        fnref = e.get("fn")
        args = e["args"]
        name = fnref["n"] if fnref else None
        loc = e.get("loc")
        # closure invocation: operator() on a lambda object
        if e.get("opcall") == "()" and fnref and fnref["n"].endswith("::operator()") and args:
            outs = []
            for s, o in self.ev_lv(st, fr, args[0]):
                clo = s.mem.get(o)
                if clo is None:
                    src = s.mem.get(("copyof", o))
                    clo = s.mem.get(src) if src is not None else None
                if clo is None and isinstance(o, tuple) and o[:1] == ("global",):
                    # a lambda stored in a constexpr variable (template): the closure is its initialiser
                    clo = self.global_closure(s, fr, o, self._strip_e(args[0]))
                if clo and clo[0] == "closure":
                    outs += self.call_closure(s, self._fr(s, fr), clo, args[1:], loc, callee_id=fnref["id"])
                else:
                    # a named functor class (not a lambda): its call operator is an ordinary member function
                    callee_ = self.callee_fn(fnref)
                    f2_ = self._fr(s, fr)
                    if callee_ is not None and f2_.depth < self.max_depth:
                        pm = ["lv" if ((p_["t"] or {}).get("ref") or self.is_rec(p_["t"] or {})) else "v" for p_ in callee_["params"]]
                        pm = pm[:len(args) - 1] + ["v"] * max(0, len(args) - 1 - len(pm))
                        for s2, av in self.ev_args(s, f2_, args[1:], pm):
                            if s2.status != "run":
                                outs.append((s2, ("void",)))
                                continue
                            outs += self.inline(s2, callee_, self.addr(o), av, pm, loc, want_lv=bool((e.get("t") or {}).get("ref")) or bool(e.get("lv")))
                    else:
                        for s2, av in self.ev_args(s, f2_, args[1:], ["v"] * (len(args) - 1)):
                            outs += self.opaque_call(s2, name, av, o, loc, e)
            return outs
        callee = self.callee_fn(fnref)
        # object argument
        obj_e = e.get("obj")
        is_member_op = e.get("opcall") and e.get("member")
        if is_member_op:
            obj_e, args = args[0], args[1:]
        if fnref is None:
            # indirect call through a pointer value
            outs = []
            for s, f in self.ev(st, fr, e["callee"]):
                clo = None
                for s2, av in self.ev_args(s, self._fr(s, fr), args, ["v"] * len(args)):
                    r = ("ucall", next(self.uid), "indirect", tuple(av))
                    self.emit(s2, "CALL", "<indirect>", av, f, loc=loc, extra={"ret": r, "target": f})
                    outs.append((s2, r))
            return outs
        # identity helpers
        if name in IDENTITY_FUNCS and len(args) == 1:
            outs_ = self.ev_lv(st, fr, args[0])
            if not self.is_rec(e.get("t") or {}):
                # forwarding a scalar held in a member / element slot whose value is known (a tuple element, a field of a local
                # aggregate): where the value is wanted, it is that value
                outs_ = [(s_, s_.mem[lv_] if isinstance(lv_, tuple) and lv_[:1] in (("fld",), ("idx",)) and lv_ in s_.mem and not getattr(self, "_want_lv_identity", False) else lv_) for s_, lv_ in outs_]
            return outs_
        if name == "std::addressof" and len(args) == 1:
            return [(s, self.addr(lv)) for s, lv in self.ev_lv(st, fr, args[0])]
        if name in ("std::begin", "std::end", "std::cbegin", "std::cend", "std::data", "std::size", "std::ssize") and len(args) == 1 and (self._strip_e(args[0]).get("t") or {}).get("k") == "array" \
                and (self._strip_e(args[0]).get("t") or {}).get("n") is not None:
            # range access on a built-in array: positions are element addresses of that array
            n_ = self._strip_e(args[0])["t"]["n"]
            sh_ = name.split("::")[-1]
            return [(s, C(n_) if sh_ in ("size", "ssize") else self.addr(("idx", lv, C(n_ if sh_ in ("end", "cend") else 0)))) for s, lv in self.ev_lv(st, fr, args[0])]
        if name in ("std::begin", "std::end", "std::cbegin", "std::cend", "std::data", "std::size", "std::ssize") and len(args) == 1 and self.std_array_extent(self._strip_e(args[0]).get("t")) is not None:
            n_ = self.std_array_extent(self._strip_e(args[0]).get("t"))
            sh_ = name.split("::")[-1]
            return [(s, C(n_) if sh_ in ("size", "ssize") else self.addr(("idx", lv, C(n_ if sh_ in ("end", "cend") else 0)))) for s, lv in self.ev_lv(st, fr, args[0])]
        if name == "std::get" and len(args) == 1 and _re.match(r"^\d+[UuLl]*$", str((fnref.get("ta") or [""])[0])):
            at_ = self._strip_e(args[0]).get("t") or {}
            i_ = int(_re.match(r"^\d+", str(fnref["ta"][0])).group(0))
            rn_ = at_.get("rn") or ""
            if rn_ in ("std::pair", "std::tuple", "std::array") or rn_.startswith(("std::pair<", "std::tuple<", "std::array<")):
                outs = []
                for s, lv in self.ev_lv(st, fr, args[0]):
                    if "pair" in rn_:
                        outs.append((s, ("fld", lv, "first" if i_ == 0 else "second")))
                    elif "tuple" in rn_:
                        outs.append((s, ("fld", lv, "$t%d" % i_)))
                    else:
                        outs.append((s, ("idx", lv, C(i_))))
                return outs
        if name in ("std::make_tuple", "std::forward_as_tuple", "std::tie", "std::make_pair") and (name != "std::make_pair" or len(args) == 2) and not (callee is not None and False):
            # tuple / pair factories: one slot per element (values; class-type elements are copied as objects)
            names_ = ["first", "second"] if name == "std::make_pair" else ["$t%d" % i_ for i_ in range(len(args))]
            outs = []
            for s, av in self.ev_args(st, fr, args, ["v"] * len(args)):
                obj = self.fresh("tmp", "pair" if name == "std::make_pair" else "tuple")
                for nm_, a_, ae_ in zip(names_, av, args):
                    a_ = self.glvalue_arg_value(s, ae_, a_)
                    if self.is_rec(self._strip_e(ae_).get("t") or {}) and isinstance(a_, tuple):
                        self.copy_object(s, ("fld", obj, nm_), a_)
                    else:
                        s.mem[("fld", obj, nm_)] = a_
                s.mem[("tuplelen", obj)] = len(args)
                self.emit(s, "CTOR", obj, name, list(av), loc=loc, extra={"t": e.get("t"), "native": True})
                outs.append((s, obj))
            return outs
        if name == "std::apply" and len(args) == 2:
            # std::apply(f, tuple): f(get<0>(tuple), get<1>(tuple), ...) for a closure f and a tuple built by the factories above
            outs = []
            handled = True
            for s, (fv, tv) in self.ev_args(st, fr, args, ["v", "lv"]):
                clo = s.mem.get(fv) if isinstance(fv, tuple) else None
                if clo is None and isinstance(fv, tuple):
                    src_ = s.mem.get(("copyof", fv))
                    clo = s.mem.get(src_) if src_ is not None else None
                if isinstance(fv, tuple) and fv[:1] == ("closure",):
                    clo = fv
                tobj = tv
                for _ in range(4):
                    if s.mem.get(("tuplelen", tobj)) is not None:
                        break
                    nx_ = s.mem.get(("copyof", tobj)) or s.mem.get(("alias", tobj))
                    if nx_ is None:
                        break
                    tobj = nx_
                n_ = s.mem.get(("tuplelen", tobj))
                if not (clo and clo[0] == "closure") or n_ is None:
                    handled = False
                    break
                elems = [("fld", tobj, "$t%d" % i_) for i_ in range(n_)]
                for s2, rv in self.call_closure(s, self._fr(s, fr), clo, [], loc, prevals=elems):
                    outs.append((s2, rv))
            if handled:
                return outs
        if name == "std::exchange" and len(args) == 2:
            # old = obj; obj = new_value; return old
            outs = []
            for s, lv in self.ev_lv(st, fr, args[0]):
                for s2, nv in self.ev(s, self._fr(s, fr), args[1]):
                    old = self.load(s2, lv)
                    self.store(s2, lv, nv, loc=loc, ty=(args[0].get("t") or {}))
                    outs.append((s2, old))
            return outs
        if name in ABORT_FUNCS or (fnref.get("noret") and callee is None):
            st.status = "abort"
            return [(st, ("void",))]
        # evaluate object
        obj_outs = [(st, None)]
        if obj_e is not None:
            if e.get("arrow") and not is_member_op:
                obj_outs = self.ev(st, fr, obj_e)  # pointer value
            else:
                obj_outs = [(s, self.addr(lv)) for s, lv in self.ev_lv(st, fr, obj_e)]
        outs = []
        for s, thisv in obj_outs:
            f2 = self._fr(s, fr)
            if callee is not None and f2.depth < self.max_depth:
                pmodes = ["lv" if ((p["t"] or {}).get("ref") or self.is_rec(p["t"] or {})) else "v" for p in callee["params"]]
                pmodes = pmodes[:len(args)] + ["v"] * max(0, len(args) - len(pmodes))
                for s2, av in self.ev_args(s, f2, args, pmodes):
                    if s2.status != "run":
                        outs.append((s2, ("void",)))
                        continue
                    outs += self.inline(s2, callee, thisv, av, pmodes, loc, want_lv=bool((e.get("t") or {}).get("ref")) or bool(e.get("lv")))
            else:
                modes = ["v"] * len(args)
                for s2, av in self.ev_args(s, f2, args, modes):
                    if s2.status != "run":
                        outs.append((s2, ("void",)))
                        continue
                    outs += self.opaque_call(s2, name, av, thisv, loc, e)
        return outs

    def opaque_call(self, st, name, av, thisv, loc, e):
        short = name.split("::")[-1] if name else "?"
        if name and name.startswith("std::array<") and short in ("operator[]", "at") and len(av) == 1 and thisv is not None:
            # element access of a std::array object: model natively as an element lvalue
            idxv = self.load(st, av[0]) if (isinstance(av[0], tuple) and av[0] and av[0][0] in ("var", "tmp") and av[0] in st.mem) else av[0]
            r = ("idx", self.deref(thisv), idxv)
            self.emit(st, "CALL", name, list(av), thisv, loc=loc, extra={"ret": r, "fnid": (e.get("fn") or {}).get("id"), "rt": e.get("t"), "argvals": [idxv], "native": True})
            return [(st, r)]
        if name and name.startswith("std::array<") and short in ("data", "begin", "cbegin", "end", "cend") and not av and thisv is not None and \
                (short in ("data", "begin", "cbegin") or self.std_array_extent({"k": "rec", "c": name[:name.rfind("::")]}) is not None):
            # address of element 0 / one past the last element (pointer arithmetic on it is element indexing)
            r = self.addr(("idx", self.deref(thisv), C(0 if short in ("data", "begin", "cbegin") else self.std_array_extent({"k": "rec", "c": name[:name.rfind("::")]}))))
            self.emit(st, "CALL", name, [], thisv, loc=loc, extra={"ret": r, "fnid": (e.get("fn") or {}).get("id"), "rt": e.get("t"), "argvals": [], "native": True})
            return [(st, r)]
        if name and name.startswith("std::optional<") and thisv is not None:
            o_ = self.deref(thisv)
            if short in ("has_value", "operator bool") and not av:
                return [(st, self.load(st, ("fld", o_, "$has")))]
            if short in ("operator*", "value") and not av:
                return [(st, ("fld", o_, "$val"))]
            if short == "operator->" and not av:
                return [(st, self.addr(("fld", o_, "$val")))]
            if short == "reset" and not av:
                self.store(st, ("fld", o_, "$has"), C(0), loc=loc)
                return [(st, ("void",))]
            if short in ("operator=", "emplace") and len(av) == 1:
                at_ = ((e.get("args") or [{}])[-1].get("t") or {}) if e.get("args") else {}
                if at_.get("rn") == "std::nullopt_t":
                    self.store(st, ("fld", o_, "$has"), C(0), loc=loc)
                elif (at_.get("rn") or "").startswith("std::optional"):
                    pass
                else:
                    self.store(st, ("fld", o_, "$has"), C(1), loc=loc)
                    self.store(st, ("fld", o_, "$val"), av[0], loc=loc)
                    return [(st, o_)]
        # abstract iterator positions (see exec_iterator_loop)
        def itpos(x):
            x = x[1] if isinstance(x, tuple) and x[:1] == ("addr",) else x
            v = st.mem.get(x) if isinstance(x, tuple) else None
            return v if isinstance(v, tuple) and v[:1] == ("iter",) else None
        if short in ("operator*", "operator->") and not av and thisv is not None and itpos(thisv) is not None and itpos(thisv)[1] == "elem":
            el = itpos(thisv)[2]
            return [(st, el if short == "operator*" else self.addr(el))]
        if short in ("operator!=", "operator==") and (len(av) == 2 or (len(av) == 1 and thisv is not None)):
            xs = list(av) if len(av) == 2 else [thisv, av[0]]
            ps_ = [itpos(x) for x in xs]
            def is_end_of(t, X):
                return isinstance(t, tuple) and t[:1] == ("ucall",) and t[2].split("::")[-1] in ("end", "cend") and t[4] is not None and (t[4] == self.addr(X) or t[4] == X)
            for a_, b_ in ((0, 1), (1, 0)):
                if ps_[a_] is not None:
                    X = ps_[a_][2][2] if ps_[a_][1] == "elem" else ps_[a_][2]
                    other = xs[b_]
                    other_v = other
                    for _ in range(4):
                        if isinstance(other_v, tuple) and other_v[:1] in (("var",), ("tmp",)):
                            nxt_ = st.mem.get(other_v)
                            if nxt_ is None:
                                nxt_ = st.mem.get(("copyof", other_v))
                            if nxt_ is None:
                                break
                            other_v = nxt_
                        else:
                            break
                    if is_end_of(other_v, X) or (isinstance(other_v, tuple) and other_v[:2] == ("iter", "end") and other_v[2] == X):
                        equal = ps_[a_][1] == "end"
                        return [(st, C(1 if (equal == (short == "operator==")) else 0))]
        if name in ("std::find_if", "std::find_if_not", "std::any_of", "std::none_of") and len(av) == 3:
            r_ = self.native_find_if(st, name, av, loc, e)
            if r_ is not None:
                return r_
        fdecl = self.db.fn_by_id.get((e.get("fn") or {}).get("id")) if isinstance(e, dict) else None
        if short == "operator=" and not (name or "").startswith("std::") and (fdecl is None or (fdecl.get("defaulted") and "body" not in fdecl)) and len(av) == 1 and thisv is not None:
            # implicitly-defined / defaulted copy or move assignment: member-wise copy, yields the object assigned to
            dst = self.deref(thisv)
            src = av[0]
            rid_ = (fdecl or {}).get("rid")
            if rid_ is None and isinstance(e, dict):
                ot_ = ((e.get("obj") or (e.get("args") or [{}])[0]) or {}).get("t") or {}
                rid_ = ot_.get("rid")
            leaves = self.scalar_leaves(rid_)
            if leaves is not None and dst != src:
                # a small aggregate of scalars: the member-wise assignment spelled out, so that `slot = slot_t{}` and
                # `slot.key = nullptr; slot.fn = nullptr;` are the same stores
                vals_ = [(path, self.load(st, self._at(src, path))) for path in leaves]
                self.copy_object(st, dst, src)
                self.emit(st, "COPY", dst, src, loc=loc, extra={"assign": True, "memberwise": True})
                for path, v_ in vals_:
                    self.store(st, self._at(dst, path), v_, loc=loc)
                return [(st, dst)]
            self.copy_object(st, dst, src)
            self.emit(st, "COPY", dst, src, loc=loc, extra={"assign": True})
            return [(st, dst)]
        m_ = FUNCTOR_RE.match(name or "")
        if m_ and short == "operator()" and len(av) == 2:
            # transparent standard functors compute the plain operator on their (forwarded) operands
            vals = [self.load(st, a) if (isinstance(a, tuple) and a and a[0] in ("var", "tmp", "p", "pobj") and (a in st.mem or a[0] in ("p", "pobj"))) else a for a in av]
            vals = [("rd", v) if isinstance(v, tuple) and v[:1] == ("pobj",) else v for v in vals]
            return [(st, self.binop(FUNCTORS[m_.group(1)], vals[0], vals[1]))]
        m1_ = UNARY_FUNCTOR_RE.match(name or "")
        if m1_ and short == "operator()" and len(av) == 1:
            v_ = self.load(st, av[0]) if (isinstance(av[0], tuple) and av[0] and av[0][0] in ("var", "tmp", "p", "pobj") and (av[0] in st.mem or av[0][0] in ("p", "pobj"))) else av[0]
            v_ = ("rd", v_) if isinstance(v_, tuple) and v_[:1] == ("pobj",) else v_
            k_ = m1_.group(1)
            return [(st, lin("-", C(0), v_) if k_ == "negate" else (neg(truthy(v_)) if k_ == "logical_not" else ("un", "~", v_)))]
        pure = any(short.startswith(p) for p in PURE_PREFIXES) or name in ("std::numeric_limits::max", "std::numeric_limits::min")
        if pure:
            r = ("call", name, tuple(av), thisv)
        else:
            r = ("ucall", next(self.uid), name, tuple(av), thisv)
        vals = [self.load(st, a) if (isinstance(a, tuple) and a and a[0] in ("var", "tmp") and a in st.mem) else a for a in av]
        self.emit(st, "CALL", name, list(av), thisv, loc=loc, extra={"ret": r, "fnid": (e.get("fn") or {}).get("id"), "rt": e.get("t"), "argvals": vals, "ta": (e.get("fn") or {}).get("ta")})
        if short in ("lock", "lock_shared", "unlock", "unlock_shared") and thisv is not None and "mutex" in (name or "") and not av:
            # a mutex locked / unlocked directly (e.g. by a hand-written guard class): presented like the standard guards so that the
            # lock rules see one vocabulary - CALL unique_lock|shared_lock(mutex) ... UNLOCK
            m_lv = self.deref(thisv)
            tag = ("rawlock", m_lv)
            if short in ("lock", "lock_shared"):
                self.emit(st, "CALL", "raw::" + ("unique_lock" if short == "lock" else "shared_lock"), [m_lv], None, loc=loc, extra={"ret": tag, "raw": True, "argvals": [m_lv]})
            else:
                self.emit(st, "UNLOCK", tag, "raw", loc=loc)
        return [(st, r)]

    def native_find_if(self, st, name, av, loc, e):
        """std::find_if(c.begin(), c.end(), pred) with a lambda whose body is known: either no element satisfies the predicate and
        end() is returned, or the result designates a generic element `elem` for which the predicate held (first such element)"""
        first, last, pred = av
        fv = st.mem.get(first) if isinstance(first, tuple) and first[:1] in (("var",), ("tmp",)) else first
        if not (isinstance(fv, tuple) and fv[:1] == ("ucall",) and fv[2].split("::")[-1] in ("begin", "cbegin") and fv[4] is not None):
            return None
        X = self.deref(fv[4])
        clo = st.mem.get(pred) if isinstance(pred, tuple) else None
        if clo is None and isinstance(pred, tuple):
            src = st.mem.get(("copyof", pred))
            clo = st.mem.get(src) if src is not None else None
        if not (clo and clo[0] == "closure"):
            return None
        want_true = name in ("std::find_if", "std::any_of")
        outs = []
        fr = self._fr(st, st.frames[max(st.frames)]) if st.frames else None
        # not found
        qa = st.clone()
        ra = ("iter", "end", X)
        ta = self.fresh("tmp", "iterator")
        qa.mem[ta] = ra
        self.emit(qa, "LOOPSKIP", X, loc=loc, extra={"algorithm": name})
        self.emit(qa, "CALL", name, list(av), None, loc=loc, extra={"ret": ta, "native": True, "argvals": list(av)})
        outs.append((qa, ta if name.startswith("std::find") else C(0 if name == "std::any_of" else 1)))
        # found at a generic element
        elem = ("elem", next(self.uid), X)
        st.loopdepth += 1
        self.emit(st, "LOOP_BEGIN", loc=loc, extra={"range": True, "algorithm": name})
        self.emit(st, "RANGE", X, loc=loc)
        for s2, rv in self.call_closure(st, self._fr(st, fr), clo, [], loc, prevals=[elem]):
            c = truthy(rv)
            if not self.assume(s2, c if want_true else neg(c), loc, kind="loop-cond"):
                continue
            self.emit(s2, "LOOP_END", loc=loc)
            s2.loopdepth -= 1
            tb = self.fresh("tmp", "iterator")
            s2.mem[tb] = ("iter", "elem", elem)
            self.emit(s2, "CALL", name, list(av), None, loc=loc, extra={"ret": tb, "native": True, "argvals": list(av)})
            outs.append((s2, tb if name.startswith("std::find") else C(1 if name == "std::any_of" else 0)))
        return outs

    def inline(self, st, fn, thisv, av, pmodes, loc, want_lv=False):
        """run callee body; returns list of (state, return term)"""
        fid = next(self.uid)
        caller_depth = max((f.depth for f in st.frames.values()), default=0)
        rt = fn.get("ret") or {}
        fr = Frame(fid, fn, thisv, len(st.callstack) + 1, ret_is_ref=bool(rt.get("ref")))
        st.frames[fid] = fr
        for p, a, m in zip(fn["params"], av, pmodes):
            if m == "lv":
                fr.binds[p["d"]] = a
            else:
                lv = ("var", next(self.uid), p["n"])
                st.mem[lv] = a
                fr.binds[p["d"]] = lv
        saved_stack = st.callstack
        st.callstack = saved_stack + ((fn["n"], loc),)
        outs = []
        # constructor member initialisers
        states = [st]
        if fn.get("kind") == "ctor":
            for ini in fn.get("inits", []):
                nxt = []
                for s in states:
                    nxt += self.exec_init(s, self._fr(s, fr), ini, thisv)
                states = nxt
        res = []
        for s in states:
            if s.status != "run":
                res.append(s)
                continue
            res += self.exec(s, self._fr(s, fr), fn.get("body"))
        for s in res:
            if s.status in ("ret", "run"):
                if s.status == "run":
                    # fell off the end: run cleanups
                    pass
                rv = s.retval if s.status == "ret" else ("void",)
                s.status = "run"
                s.retval = None
                s.callstack = saved_stack
                s.frames.pop(fid, None)
                outs.append((s, rv if rv is not None else ("void",)))
            else:
                s.callstack = saved_stack
                outs.append((s, ("void",)))
        self.npaths += max(0, len(outs) - 1)
        if self.npaths > self.max_paths:
            raise Inconclusive("path budget exceeded while inlining %s" % fn["n"])
        return outs

    def exec_init(self, st, fr, ini, thisv):
        if "n" not in ini:
            # base initialiser: the base constructor runs on the SAME object (members of a base are members of this object)
            ie_ = ini["e"]
            ce_ = self._strip_e(ie_)
            if isinstance(ce_, dict) and ce_.get("k") == "ctor":
                callee = self.callee_fn(ce_["fn"])
                if callee is not None and fr.depth < self.max_depth and not ce_.get("copymove"):
                    pm = ["lv" if ((p_["t"] or {}).get("ref") or self.is_rec(p_["t"] or {})) else "v" for p_ in callee["params"]][:len(ce_["args"])]
                    outs = []
                    for s, av in self.ev_args(st, fr, ce_["args"], pm):
                        if s.status != "run":
                            outs.append(s)
                            continue
                        outs += [s2 for s2, _ in self.inline(s, callee, thisv, av, pm, ce_.get("loc"))]
                    return outs
                if ce_.get("copymove") and len(ce_["args"]) == 1:
                    outs = []
                    for s, src in self.ev_lv(st, fr, ce_["args"][0]):
                        self.copy_object(s, self.deref(thisv), src)
                        outs.append(s)
                    return outs
            return [s for s, _ in self.ev(st, fr, ie_)] if ini.get("written") else [st]
        target = ("fld", self.deref(thisv), ini["n"])
        ie = ini["e"]
        it = ie.get("t") or {}
        outs = []
        # a reference member is bound to an object, not assigned a value: later uses of the member designate that object
        rec = self.db.rec_by_id.get(fr.fn.get("rid")) or {}
        fdecl = next((fl for fl in rec.get("fields", []) if fl.get("d") == ini.get("d")), None)
        if fdecl is not None and (fdecl.get("t") or {}).get("ref"):
            for s, lv in self.ev_lv(st, fr, ie):
                s.mem[("refbind", target)] = lv
                self.emit(s, "STORE", target, self.addr(lv), loc=ie.get("loc"), extra={"init": True, "refbind": True})
                outs.append(s)
            return outs
        for s, v in self.ev(st, fr, ie):
            if self.is_rec(it) or (isinstance(v, tuple) and v and v[0] in ("tmp",) and s.mem.get(v, (None,))[0] == "closure"):
                self.copy_object(s, target, v)
                self.emit(s, "STORE", target, v, loc=ie.get("loc"), extra={"rec": True, "init": True})
            else:
                v = self.store_conv(s, fr, ie, v)
                self.store(s, target, v, loc=ie.get("loc"), ty=it)
                s.events[-1].extra["init"] = True
            outs.append(s)
        return outs

    def call_closure(self, st, fr, clo, args, loc, callee_id=None, prevals=None):
        lam = self._closures[clo[2]]
        if lam.get("generic"):
            spec = next((sp for sp in lam.get("specs", []) if sp["id"] == callee_id), None)
            if spec is None and callee_id is None and len(lam.get("specs", [])) == 1:
                spec = lam["specs"][0]
            if spec is None:
                raise Inconclusive("generic lambda call without a matching instantiation at %s" % loc)
            lam = dict(lam)
            lam["params"] = spec["params"]
            lam["body"] = spec["body"]
        fid = next(self.uid)
        f = Frame(fid, {"n": "lambda", "params": lam["params"]}, None, fr.depth + 1)
        f.parent_closure = clo[3]
        parent = st.frames.get(clo[3])
        f.this = parent.this if parent is not None else None
        st.frames[fid] = f
        outs = []
        modes = ["lv" if ((p["t"] or {}).get("ref") or self.is_rec(p["t"] or {})) else "v" for p in lam["params"]]
        for s, av in ([(st, list(prevals))] if prevals is not None else self.ev_args(st, fr, args, modes[:len(args)])):
            ff = s.frames[fid]
            if prevals is not None:
                # pre-evaluated operands are lvalues: by-value parameters receive the value read from them
                av = [a if m == "lv" else (("rd", a) if isinstance(a, tuple) and a[:1] in (("elem",), ("fld",), ("idx",), ("deref",)) else a) for a, m in zip(av, modes)]
            for p, a, m in zip(lam["params"], av, modes):
                if m == "lv":
                    ff.binds[p["d"]] = a
                else:
                    lv = ("var", next(self.uid), p["n"])
                    s.mem[lv] = a
                    ff.binds[p["d"]] = lv
            saved = s.callstack
            s.callstack = saved + (("lambda@%s" % lam.get("loc"), loc),)
            for s2 in self.exec(s, ff, lam.get("body")):
                rv = s2.retval if s2.status == "ret" else ("void",)
                if s2.status in ("ret", "run"):
                    s2.status = "run"
                    s2.retval = None
                s2.callstack = saved
                s2.frames.pop(fid, None)
                outs.append((s2, rv if rv is not None else ("void",)))
        return outs

    def glvalue_arg_value(self, s, ae, a):
        """value of a scalar argument handed to a natively modelled std constructor taking forwarding references: an argument
        expression that is a glvalue designates an object, whose current value is what the constructor copies"""
        se = self._strip_e(ae)
        if self.is_rec(se.get("t") or {}) or not isinstance(a, tuple):
            return a
        if a[:1] in (("var",), ("tmp",)) and a in s.mem:
            return self.load(s, a)
        if (se.get("lv") or se.get("xv")) and a[:1] in (("fld",), ("idx",), ("deref",), ("global",), ("elem",)):
            return self.load(s, a)
        return a

    def ev_ctor(self, st, fr, e):
        fnref = e["fn"]
        args = e["args"]
        loc = e.get("loc")
        t = e.get("t") or {}
        callee = self.callee_fn(fnref)
        if e.get("copymove") and len(args) == 1 and (callee is None or "body" not in callee or callee.get("defaulted")):
            outs = []
            for s, src in self.ev_lv(st, fr, args[0]):
                if e.get("elidable"):
                    outs.append((s, src))
                    continue
                obj = self.fresh("tmp", (t.get("rn") or "obj").split("::")[-1])
                self.copy_object(s, obj, src)
                self.emit(s, "COPY", obj, src, loc=loc, extra={"t": t})
                outs.append((s, obj))
            return outs
        obj = self.fresh("tmp", (t.get("rn") or "obj").split("::")[-1])
        if callee is not None and fr.depth < self.max_depth:
            pmodes = ["lv" if ((p["t"] or {}).get("ref") or self.is_rec(p["t"] or {})) else "v" for p in callee["params"]]
            pmodes = pmodes[:len(args)]
            outs = []
            for s, av in self.ev_args(st, fr, args, pmodes):
                if s.status != "run":
                    outs.append((s, obj))
                    continue
                self.emit(s, "CTOR", obj, fnref["n"], av, loc=loc, extra={"t": t})
                for s2, _ in self.inline(s, callee, self.addr(obj), av, pmodes, loc):
                    outs.append((s2, obj))
            return outs
        if (fnref.get("n") or "").startswith("std::optional<") and len(args) <= 1 and not e.get("copymove"):
            # std::optional modelled natively: an engaged flag and a value slot
            outs = []
            for s, av in self.ev_args(st, fr, args, ["v"] * len(args)):
                empty = not args or ((self._strip_e(args[0]).get("t") or {}).get("rn") == "std::nullopt_t")
                s.mem[("fld", obj, "$has")] = C(0 if empty else 1)
                if not empty:
                    # the converting constructor takes U&&: a scalar variable named as the argument is read here
                    s.mem[("fld", obj, "$val")] = self.glvalue_arg_value(s, args[0], av[0])
                self.emit(s, "CTOR", obj, fnref["n"], list(av), loc=loc, extra={"t": t, "native": True})
                outs.append((s, obj))
            return outs
        cn_ = fnref.get("n") or ""
        if (cn_.startswith("std::pair<") and len(args) == 2 or cn_.startswith("std::tuple<") and args) and not e.get("copymove"):
            # std::pair / std::tuple modelled natively: one slot per element (first / second, $t0 $t1 ...)
            names = ["first", "second"] if cn_.startswith("std::pair<") else ["$t%d" % i_ for i_ in range(len(args))]
            outs = []
            for s, av in self.ev_args(st, fr, args, ["v"] * len(args)):
                for nm_, a_, ae_ in zip(names, av, args):
                    a_ = self.glvalue_arg_value(s, ae_, a_)
                    if self.is_rec(self._strip_e(ae_).get("t") or {}) and isinstance(a_, tuple):
                        self.copy_object(s, ("fld", obj, nm_), a_)
                    else:
                        s.mem[("fld", obj, nm_)] = a_
                self.emit(s, "CTOR", obj, fnref["n"], list(av), loc=loc, extra={"t": t, "native": True})
                outs.append((s, obj))
            return outs
        # opaque constructor (std types, defaulted)
        outs = []
        for s, av in self.ev_args(st, fr, args, ["v"] * len(args)):
            if not (e.get("default") and not args):
                self.emit(s, "CALL", fnref["n"], list(av), self.addr(obj), loc=loc, extra={"ret": obj, "ctor": True, "t": t})
            else:
                self.emit(s, "CTOR", obj, fnref["n"], [], loc=loc, extra={"t": t, "default": True})
            outs.append((s, obj))
        return outs

    # ------------------------------------------------------------ statements
    def exec(self, st, fr, s):
        """returns list of states"""
        if s is None or st.status != "run":
            return [st]
        kind = s.get("s")
        if kind == "block":
            fr.cleanups.append([])
            states = [st]
            for x in s["b"]:
                nxt = []
                for q in states:
                    if q.status == "run":
                        nxt += self.exec(q, self._fr(q, fr), x)
                    else:
                        nxt.append(q)
                states = nxt
                if len(states) > self.max_paths:
                    raise Inconclusive("too many paths")
            outs = []
            for q in states:
                f = q.frames.get(fr.fid)
                if f is None:
                    outs.append(q)
                    continue
                if q.status == "run":
                    outs += self.run_cleanups(q, f, f.cleanups.pop() if f.cleanups else [])
                else:
                    if q.status in ("ret", "break", "continue") and f.cleanups:
                        saved, sv = q.status, q.retval
                        q.status = "run"
                        outs2 = self.run_cleanups(q, f, f.cleanups.pop())
                        for o in outs2:
                            if o.status == "run":
                                o.status, o.retval = saved, sv
                        outs += outs2
                    else:
                        if f.cleanups:
                            f.cleanups.pop()
                        outs.append(q)
            return outs
        if kind == "expr":
            outs = []
            e = s["e"]
            for q, v in self.ev(st, fr, e):
                t = e.get("t") or {}
                # discarded temporaries with in-repo destructors are destroyed at once
                if q.status == "run" and self.is_rec(t) and isinstance(v, tuple) and v and v[0] == "tmp" and e["k"] in ("call", "ctor") and not (e.get("lv") or e.get("xv")):
                    outs += self.run_cleanups(q, self._fr(q, fr), [(v, t.get("rn"), t.get("rid"))])
                else:
                    outs.append(q)
            return outs
        if kind == "decl":
            states = [st]
            for v in s["v"]:
                if v.get("sa"):
                    continue
                nxt = []
                for q in states:
                    if q.status != "run":
                        nxt.append(q)
                        continue
                    nxt += self.exec_decl(q, self._fr(q, fr), v)
                states = nxt
            return states
        if kind == "ret":
            outs = []
            e = s.get("e")
            if e is None:
                st.status = "ret"
                st.retval = ("void",)
                self.emit(st, "RET", ("void",), loc=s.get("loc"), extra={"fn": fr.fn.get("n")})
                return [st]
            rt = (fr.fn.get("ret") or {})
            res = self.ev_lv(st, fr, e) if fr.ret_is_ref else self.ev(st, fr, e)
            for q, v in res:
                if q.status == "run":
                    q.status = "ret"
                    q.retval = v
                    self.emit(q, "RET", v, loc=s.get("loc"), extra={"fn": fr.fn.get("n"), "depth": len(q.callstack)})
                outs.append(q)
            return outs
        if kind == "if":
            states = [st]
            if s.get("init"):
                states = self.exec(st, fr, s["init"])
            if s.get("condvar"):
                states = [q2 for q in states for q2 in self.exec_decl(q, self._fr(q, fr), s["condvar"])]
            outs = []
            for q in states:
                if q.status != "run":
                    outs.append(q)
                    continue
                for q2, c in self.ev(q, self._fr(q, fr), s["c"]):
                    if q2.status != "run":
                        outs.append(q2)
                        continue
                    c = truthy(c)
                    if is_const(c):
                        br = s["then"] if c[1] else s.get("else")
                        outs += self.exec(q2, self._fr(q2, fr), br)
                        continue
                    q3 = q2.clone()
                    n2, n3 = len(q2.events), len(q3.events)
                    t_out, e_out = None, None
                    if self.assume(q2, c, s.get("loc")):
                        ev_t = q2.events[n2:]
                        t_out = self.exec(q2, self._fr(q2, fr), s["then"])
                    if self.assume(q3, neg(c), s.get("loc")):
                        ev_e = q3.events[n3:]
                        e_out = self.exec(q3, self._fr(q3, fr), s.get("else"))
                    # the surviving side of an abort check is marked (the other side never returns)
                    if t_out is not None and e_out is not None:
                        if t_out and all(x.status == "abort" for x in t_out):
                            for ev_ in ev_e:
                                ev_.extra["abort_check"] = True
                        if e_out and all(x.status == "abort" for x in e_out):
                            for ev_ in ev_t:
                                ev_.extra["abort_check"] = True
                    outs += (t_out or []) + (e_out or [])
                    self.npaths += 1
            if self.npaths > self.max_paths:
                raise Inconclusive("path budget exceeded")
            return outs
        if kind in ("for", "while", "forrange", "do"):
            return self.exec_loop(st, fr, s)
        if kind == "break":
            st.status = "break"
            return [st]
        if kind == "continue":
            st.status = "continue"
            return [st]
        if kind == "null":
            return [st]
        if kind == "try":
            return self.exec(st, fr, s["body"])
        if kind == "switch":
            return self.exec_switch(st, fr, s)
        raise Inconclusive("unhandled statement kind %s at %s" % (kind, s.get("loc")))

    def exec_switch(self, st, fr, s):
        """switch (v) { case k1: ... break; case k2: case k3: ...; default: ... }: one path per entry label (v == k, or v different from
        every case constant for `default` / for skipping the body), executing from the label to the next break (fall-through included)"""
        body = s.get("body") or {}
        stmts = list(body.get("b") or []) if body.get("s") == "block" else [body]
        flat = []
        for x in stmts:
            labels = []
            while isinstance(x, dict) and x.get("s") in ("case", "default"):
                labels.append(x.get("c") if x["s"] == "case" else "default")
                x = x.get("body")
            flat.append((labels, x))
        states = [st]
        if s.get("init"):
            states = self.exec(st, fr, s["init"])
        outs = []
        for q0 in states:
            if q0.status != "run":
                outs.append(q0)
                continue
            for q, v in self.ev(q0, self._fr(q0, fr), s["c"]):
                if q.status != "run":
                    outs.append(q)
                    continue
                consts = []
                for labels, _ in flat:
                    for lab in labels:
                        if lab != "default":
                            ce = self._strip_e(lab)
                            cv = [c_ for _q, c_ in self.ev(q.clone(), self._fr(q, fr), ce)]
                            if len(cv) != 1 or not is_const(cv[0]):
                                raise Inconclusive("switch case label is not a constant at %s" % s.get("loc"))
                            consts.append((id(lab), cv[0]))
                cmap = dict(consts)
                not_any = [cmp_("!=", v, c_) for _i, c_ in consts]
                has_default = any("default" in labels for labels, _ in flat)
                entries = []
                for i, (labels, _) in enumerate(flat):
                    for lab in labels:
                        entries.append((i, None if lab == "default" else cmap[id(lab)]))
                if not has_default:
                    entries.append((len(flat), None))
                for i, cval in entries:
                    q2 = q.clone()
                    ok = True
                    for c in ([cmp_("==", v, cval)] if cval is not None else not_any):
                        if is_const(c):
                            ok = ok and bool(c[1])
                        elif ok:
                            ok = self.assume(q2, c, s.get("loc"))
                    if not ok:
                        continue
                    blk = {"s": "block", "b": [x for _l, x in flat[i:] if x is not None], "loc": s.get("loc")}
                    for q3 in self.exec(q2, self._fr(q2, fr), blk):
                        if q3.status == "break":
                            q3.status = "run"
                        outs.append(q3)
                    self.npaths += 1
        if self.npaths > self.max_paths:
            raise Inconclusive("path budget exceeded")
        return outs

    def exec_decl(self, st, fr, v):
        if v.get("bindings"):
            # structured bindings: the hidden object first, then each name bound to the member / element expression or to the hidden
            # reference initialised with get<I>(object)
            outs = []
            for q in self._exec_decl1(st, fr, v):
                states = [q]
                for b in v["bindings"]:
                    nxt = []
                    for q2 in states:
                        if q2.status != "run":
                            nxt.append(q2)
                            continue
                        f2 = self._fr(q2, fr)
                        if b.get("hold"):
                            for q3 in self._exec_decl1(q2, f2, b["hold"]):
                                f3 = self._fr(q3, fr)
                                if b["hold"]["d"] in f3.binds:
                                    f3.binds[b["d"]] = f3.binds[b["hold"]["d"]]
                                nxt.append(q3)
                        elif b.get("e") is not None:
                            for q3, lv in self.ev_lv(q2, f2, b["e"]):
                                self._fr(q3, fr).binds[b["d"]] = lv
                                nxt.append(q3)
                        else:
                            nxt.append(q2)
                    states = nxt
                outs += states
            return outs
        return self._exec_decl1(st, fr, v)

    def _exec_decl1(self, st, fr, v):
        t = v.get("t") or {}
        d = v["d"]
        init = v.get("init")
        if v.get("staticlocal"):
            g = ("global", "static:" + v["n"])
            fr.binds[d] = g
            ini = self._strip_e(init) if init is not None else None
            if isinstance(ini, dict) and ini.get("k") == "initlist" and (t.get("k") == "array") and t.get("const"):
                # a constant lookup table: remember its elements so that a read at a symbolic index can be related to them
                outs = [(st, [])]
                for a in ini.get("args") or []:
                    outs = [(s2, acc + [val]) for s_, acc in outs for s2, val in self.ev(s_, self._fr(s_, fr), a)]
                res = []
                for s_, acc in outs:
                    s_.mem[("statictable", g)] = tuple(acc)
                    res.append(s_)
                return res
            if isinstance(ini, dict) and ini.get("k") in ("call", "ctor", "mcall") and t.get("const") and (t.get("rn") or "").startswith("std::array") and fr.depth < self.max_depth:
                # a constant table built by a constexpr function (`static constexpr auto table = make_table();`): run the builder once and
                # remember the elements it produced, so that a read at a symbolic index can be related to them
                try:
                    cl_ = st.clone()
                    built = self.ev(cl_, self._fr(cl_, fr), init)
                except Inconclusive:
                    built = []
                if len(built) == 1 and built[0][0].status == "run":
                    s_, o = built[0]
                    elems = {}
                    for k_, v_ in s_.mem.items():
                        if isinstance(k_, tuple) and len(k_) == 3 and k_[0] == "idx" and is_const(k_[2]) and (k_[1] == o or (isinstance(k_[1], tuple) and k_[1][:2] == ("fld", o))):
                            elems[k_[2][1]] = v_
                    # std::array's aggregate initialisation nests the element list inside the list for the object: { { e0, e1, ... } }
                    for _ in range(2):
                        if len(elems) == 1 and isinstance(elems.get(0), tuple) and elems[0][:1] == ("tmp",):
                            inner = {k_[2][1]: v_ for k_, v_ in s_.mem.items() if isinstance(k_, tuple) and len(k_) == 3 and k_[0] == "idx" and k_[1] == elems[0] and is_const(k_[2])}
                            if inner:
                                elems = inner
                    if elems and sorted(elems) == list(range(len(elems))):
                        st.mem[("statictable", g)] = tuple(elems[i] for i in range(len(elems)))
            return [st]
        if t.get("ref"):
            outs = []
            for q, lv in self.ev_lv(st, fr, init):
                q.frames[fr.fid].binds[d] = lv
                outs.append(q)
            return outs
        if self.is_rec(t) or t.get("k") == "array":
            if init is None:
                obj = ("var", next(self.uid), v["n"])
                fr.binds[d] = obj
                self.register_cleanup(st, fr, obj, t)
                return [st]
            outs = []
            for q, o in self.ev(st, fr, init):
                f = q.frames[fr.fid]
                if isinstance(o, tuple) and o and o[0] == "tmp":
                    obj = ("var", o[1], v["n"])
                    # rename temp to the named variable
                    self.copy_object(q, obj, o)
                    for ev_ in q.events:
                        pass
                    q.mem[("alias", obj)] = o
                    f.binds[d] = o  # keep the temp term as the object's identity
                    obj = o
                else:
                    obj = ("var", next(self.uid), v["n"])
                    self.copy_object(q, obj, o)
                    f.binds[d] = obj
                self.emit(q, "DECL", obj, v["n"], loc=v.get("loc"), extra={"t": t})
                self.register_cleanup(q, f, obj, t)
                outs.append(q)
            return outs
        lv = ("var", next(self.uid), v["n"])
        fr.binds[d] = lv
        if init is None:
            return [st]
        outs = []
        for q, val in self.ev(st, fr, init):
            q.frames[fr.fid].binds[d] = lv
            q.mem[lv] = val
            self.emit(q, "DECL", lv, v["n"], val, loc=v.get("loc"), extra={"t": t})
            outs.append(q)
        return outs

    def find_dtor(self, rid):
        if rid in self.dtor_cache:
            return self.dtor_cache[rid]
        res = None
        for f in self.db.functions:
            if f.get("kind") == "dtor" and f.get("rid") == rid and "body" in f and not f["dep"]:
                res = f
                break
        self.dtor_cache[rid] = res
        return res

    def register_cleanup(self, st, fr, obj, t):
        rid = t.get("rid")
        if rid is None:
            return
        if self.find_dtor(rid) is not None and fr.cleanups:
            fr.cleanups[-1].append((obj, t.get("rn"), rid))
        elif t.get("rn", "").startswith(("std::lock_guard", "std::unique_lock", "std::shared_lock", "std::scoped_lock")):
            if fr.cleanups:
                fr.cleanups[-1].append((obj, t.get("rn"), None))

    def run_cleanups(self, st, fr, items):
        states = [st]
        for obj, rn, rid in reversed(items):
            nxt = []
            for q in states:
                if q.status != "run":
                    nxt.append(q)
                    continue
                if rid is None:
                    self.emit(q, "UNLOCK", obj, rn)
                    nxt.append(q)
                    continue
                d = self.find_dtor(rid)
                if d is None:
                    nxt.append(q)
                    continue
                self.emit(q, "DTOR", obj, rn)
                for q2, _ in self.inline(q, d, self.addr(obj), [], [], "scope-exit"):
                    nxt.append(q2)
            states = nxt
        return states

    def modified_vars(self, s, acc):
        """decl ids assigned/incremented inside a statement (for loop havoc)"""
        if isinstance(s, dict):
            if s.get("k") == "bin" and s.get("op", "").endswith("=") and s["op"] not in ("==", "!=", "<=", ">="):
                l = s["l"]
                if l.get("k") == "ref":
                    acc.add(l["d"])
            if s.get("k") == "un" and s.get("op") in ("++", "--"):
                l = s["e"]
                if l.get("k") == "ref":
                    acc.add(l["d"])
            for v in s.values():
                if isinstance(v, (dict, list)):
                    self.modified_vars(v, acc)
        elif isinstance(s, list):
            for v in s:
                self.modified_vars(v, acc)

    def continuing_mods(self, s):
        """(decl ids assigned on some path through statement s after which the loop may run another iteration, does s always leave
        the loop).  A variable that is only ever assigned immediately before leaving the loop (`found = x; break;`) still has its
        pre-loop value at the start of every iteration and at a normal loop exit, so it need not be havocked."""
        if not isinstance(s, dict):
            return set(), False
        k = s.get("s")
        if k == "block":
            acc = set()
            for c in s.get("b") or []:
                if isinstance(c, dict) and c.get("s") == "continue":
                    return acc, False
                m, ex = self.continuing_mods(c)
                if ex:
                    return set(), True
                acc |= m
            return acc, False
        if k == "if":
            m1, e1 = self.continuing_mods(s.get("then"))
            m2, e2 = self.continuing_mods(s.get("else")) if s.get("else") is not None else (set(), False)
            mc = set()
            self.modified_vars(s.get("c"), mc)
            return mc | (set() if e1 else m1) | (set() if e2 else m2), (e1 and e2)
        if k in ("break", "ret"):
            return set(), True
        if k == "expr" and isinstance(s.get("e"), dict) and (s["e"].get("k") == "throw" or (s["e"].get("k") == "call" and ((s["e"].get("fn") or {}).get("noret")))):
            return set(), True
        acc = set()
        self.modified_vars(s, acc)
        return acc, False

    def exec_loop(self, st, fr, s):
        kind = s["s"]
        # `while (true) { if (c) break; rest }`  ==  `while (!c) { rest }`  (also `for (init;; inc)`)
        c0 = self._strip_e(s.get("c")) if s.get("c") is not None else None
        if kind in ("while", "for") and (c0 is None or (isinstance(c0, dict) and "cv" in c0 and int(c0["cv"]) != 0)) and isinstance(s.get("body"), dict) and s["body"].get("s") == "block" and s["body"].get("b"):
            first = s["body"]["b"][0]
            if isinstance(first, dict) and first.get("s") == "if" and first.get("else") is None and not first.get("init") and not first.get("condvar"):
                th = first.get("then")
                while isinstance(th, dict) and th.get("s") == "block" and len(th.get("b") or []) == 1:
                    th = th["b"][0]
                if isinstance(th, dict) and th.get("s") == "break":
                    cond = first["c"]
                    inner = self._strip_e(cond)
                    if isinstance(inner, dict) and inner.get("k") == "un" and inner.get("op") == "!":
                        ncond = inner["e"]
                    elif isinstance(inner, dict) and inner.get("k") == "call" and ((inner.get("fn") or {}).get("n") or "").endswith("operator==") and len(inner.get("args") or []) == 2:
                        # it == c.end()  ->  it != c.end(): the negated comparison is spelled as the library's operator!= so that the
                        # iterator-walk abstraction recognises it
                        ncond = dict(inner, fn=dict(inner["fn"], n=inner["fn"]["n"][:-len("operator==")] + "operator!=", id=None), negated_eq=True)
                    else:
                        ncond = {"k": "un", "op": "!", "e": cond, "t": cond.get("t"), "loc": cond.get("loc")}
                    s = dict(s, c=ncond, body=dict(s["body"], b=s["body"]["b"][1:]))
        fr.cleanups.append([])
        states = [st]
        if kind == "for" and s.get("init"):
            states = self.exec(st, fr, s["init"])
        outs = []
        for q in states:
            if q.status != "run":
                outs.append(q)
                continue
            f = self._fr(q, fr)
            mods, _ex = self.continuing_mods(s.get("body"))
            self.modified_vars(s.get("inc"), mods)
            self.modified_vars(s.get("c"), mods)
            it = self.iterator_loop(s) if kind in ("for", "while") else None
            if it is not None:
                outs += self.exec_iterator_loop(q, fr, s, it, mods)
                continue
            # --- path A: zero iterations
            qa = q.clone()
            fa = self._fr(qa, fr)
            if kind == "forrange":
                for qa2, r in self.ev_lv(qa, fa, s["range"]):
                    self.emit(qa2, "LOOPSKIP", r, loc=s.get("loc"))
                    outs.append(qa2)
            elif kind == "do":
                pass
            elif s.get("c") is not None:
                for qa2, c in self.ev(qa, fa, s["c"]):
                    if self.assume(qa2, neg(truthy(c)), s.get("loc"), kind="loop-exit"):
                        outs.append(qa2)
            # --- path B: one generic iteration
            induct = self.lockstep_vars(q, f, s, kind)
            dw = self.do_while_counter(q, f, s) if kind == "do" else None
            for d in mods:
                lv = f.binds.get(d)
                if lv is not None:
                    q.mem[lv] = ("havoc", next(self.uid), lv[2] if len(lv) > 2 else "v")
            q.loopdepth += 1
            self.emit(q, "LOOP_BEGIN", loc=s.get("loc"), extra={"range": s.get("range") is not None})
            self.apply_lockstep(q, f, induct, s)
            if dw is not None:
                # do { ... } while (++v != N) with v starting at c0 < N: every iteration runs with c0 <= v < N
                lv_, c0_, n_ = dw
                self.assume(q, cmp_("<", q.mem[lv_], C(n_)), s.get("loc"), kind="loop-invariant")
                self.assume(q, cmp_("<=", C(c0_), q.mem[lv_]), s.get("loc"), kind="loop-invariant")
            iters = [q]
            if kind == "forrange":
                iters = []
                for q2, r in self.ev_lv(q, f, s["range"]):
                    self.emit(q2, "RANGE", r, loc=s.get("loc"))
                    elem = ("elem", next(self.uid), r)
                    ff = self._fr(q2, fr)
                    vt = s.get("vart") or {}
                    if vt.get("ref") or self.is_rec(vt):
                        ff.binds[s["var"]] = elem
                    else:
                        lv = ("var", next(self.uid), s.get("varn", "it"))
                        q2.mem[lv] = ("rd", elem)
                        ff.binds[s["var"]] = lv
                    iters.append(q2)
            elif kind != "do" and s.get("c") is not None:
                iters = []
                for q2, c in self.ev(q, f, s["c"]):
                    if self.assume(q2, truthy(c), s.get("loc"), kind="loop-cond"):
                        iters.append(q2)
            for q2 in iters:
                for q3 in self.exec(q2, self._fr(q2, fr), s["body"]):
                    broke = q3.status == "break"
                    if q3.status in ("break", "continue"):
                        q3.status = "run"
                    if q3.status == "run":
                        if s.get("inc") is not None and not broke:
                            for q4, _ in self.ev(q3, self._fr(q3, fr), s["inc"]):
                                self._loop_end(q4, fr, mods, s, outs, induct=induct)
                        else:
                            # leaving through `break`: this WAS the last iteration, so what it stored stands (the havoc at loop entry already
                            # accounts for all earlier iterations); only a normal end of the body may be followed by further iterations
                            self._loop_end(q3, fr, mods, s, outs, havoc=not broke, induct=induct)
                    else:
                        q3.loopdepth -= 1
                        outs.append(q3)
        res = []
        for q in outs:
            f = q.frames.get(fr.fid)
            if f is not None and f.cleanups:
                f.cleanups.pop()
            res.append(q)
        return res

    # ---- loops that walk a container with an iterator: `for (it = c.begin(); it != c.end(); ++it)`, `while (it != c.end() && pred(*it)) ++it`
    @staticmethod
    def _strip_e(e):
        while isinstance(e, dict) and (e.get("k") == "paren" or (e.get("k") in ("icast", "cast") and e.get("ck") in ("NoOp", "LValueToRValue", "ConstructorConversion", "UserDefinedConversion", "DerivedToBase")) or
                                       (e.get("k") in ("mtemp", "bindtemp", "exprwc", "construct") and "e" in e)):
            e = e["e"]
        return e

    def iterator_loop(self, s):
        """(iterator variable expr, container expr, remaining conjunct or None) when the loop condition is `it != c.end()` [&& rest]"""
        c = self._strip_e(s.get("c"))
        rest = None
        if isinstance(c, dict) and c.get("k") == "bin" and c.get("op") == "&&":
            rest, c = c["r"], self._strip_e(c["l"])
        if not (isinstance(c, dict) and c.get("k") == "call" and ((c.get("fn") or {}).get("n") or "").endswith("operator!=") and len(c.get("args") or []) == 2):
            return None
        a, b = [self._strip_e(x) for x in c["args"]]
        for v, e in ((a, b), (b, a)):
            if isinstance(v, dict) and v.get("k") == "ref" and v.get("dk") in ("local", "param") and isinstance(e, dict) and e.get("k") == "call" \
                    and ((e.get("fn") or {}).get("n") or "").split("::")[-1] in ("end", "cend") and e.get("obj") is not None:
                return v, e["obj"], rest
        return None

    def exec_iterator_loop(self, q, fr, s, it, mods):
        """Abstracts the walk like a range-for: either the container is exhausted (the iterator ends at end()), or the loop is left
        in a generic iteration with the iterator designating an arbitrary element `elem` (break / return / the remaining conjunct
        of the condition turning false)."""
        vexpr, cexpr, rest = it
        outs = []
        f = self._fr(q, fr)
        pairs = [(q2, vlv, x) for q1, vlv in self.ev_lv(q, f, vexpr) for q2, x in self.ev_lv(q1, self._fr(q1, fr), cexpr)]
        for q0, vlv, X in pairs:
            # exhausted without leaving early
            qa = q0.clone()
            for d in mods:
                lv = self._fr(qa, fr).binds.get(d)
                if lv is not None and lv != vlv:
                    qa.mem[lv] = ("havoc", next(self.uid), lv[2] if len(lv) > 2 else "v")
            qa.mem[vlv] = ("iter", "end", X)
            self.emit(qa, "LOOPSKIP", X, loc=s.get("loc"), extra={"iterator": True})
            outs.append(qa)
            # one generic iteration
            qb = q0
            for d in mods:
                lv = self._fr(qb, fr).binds.get(d)
                if lv is not None and lv != vlv:
                    qb.mem[lv] = ("havoc", next(self.uid), lv[2] if len(lv) > 2 else "v")
            qb.loopdepth += 1
            self.emit(qb, "LOOP_BEGIN", loc=s.get("loc"), extra={"range": True, "iterator": True})
            self.emit(qb, "RANGE", X, loc=s.get("loc"))
            elem = ("elem", next(self.uid), X)
            qb.mem[vlv] = ("iter", "elem", elem)
            iters = [qb]
            if rest is not None:
                iters = []
                for q2, c2 in self.ev(qb, self._fr(qb, fr), rest):
                    c2 = truthy(c2)
                    qx = q2.clone()
                    if self.assume(qx, neg(c2), s.get("loc"), kind="loop-exit"):
                        self.emit(qx, "LOOP_END", loc=s.get("loc"))
                        qx.loopdepth -= 1
                        outs.append(qx)
                    if self.assume(q2, c2, s.get("loc"), kind="loop-cond"):
                        iters.append(q2)
            for q2 in iters:
                for q3 in self.exec(q2, self._fr(q2, fr), s["body"]):
                    broke = q3.status == "break"
                    if q3.status in ("break", "continue"):
                        q3.status = "run"
                    if q3.status == "run":
                        if not broke:
                            q3.mem[vlv] = ("iter", "end", X)   # the walk went on to the end
                        self._loop_end(q3, fr, mods - {d for d in mods if self._fr(q3, fr).binds.get(d) == vlv}, s, outs, havoc=not broke)
                    else:
                        q3.loopdepth -= 1
                        outs.append(q3)
        return outs

    def do_while_counter(self, q, f, s):
        """(variable lvalue, start constant, bound constant) of `do { body } while (++v != N)` / `(++v < N)` where the body does not
        modify v and v holds a constant below N when the loop is entered"""
        c = self._strip_e(s.get("c"))
        if not (isinstance(c, dict) and c.get("k") == "bin" and c.get("op") in ("!=", "<")):
            return None
        l, r = self._strip_e(c["l"]), self._strip_e(c["r"])
        if not (isinstance(l, dict) and l.get("k") == "un" and l.get("op") == "++" and not l.get("post") and self._strip_e(l["e"]).get("k") == "ref" and isinstance(r, dict) and "cv" in r):
            return None
        d = self._strip_e(l["e"])["d"]
        body_mods = set()
        self.modified_vars(s.get("body"), body_mods)
        lv = f.binds.get(d)
        if d in body_mods or lv is None or not is_const(q.mem.get(lv)):
            return None
        c0, n = q.mem[lv][1], int(r["cv"])
        return (lv, c0, n) if c0 < n else None

    def lockstep_vars(self, q, f, s, kind):
        """Variables of a `for` loop that its increment expression advances by exactly one per iteration (`++a, ++b`) and that nothing else
        in the loop modifies: after k iterations each holds its pre-loop value advanced by k, for ONE k common to all of them.  Only used
        when at least one of them walks an array by pointer (pre-loop value &A[i]): {decl id: (pre-loop value, +1 | -1)}, else {}."""
        if kind != "for" or s.get("inc") is None:
            return {}
        parts, todo = [], [s["inc"]]
        while todo:
            x = self._strip_e(todo.pop())
            if isinstance(x, dict) and x.get("k") == "bin" and x.get("op") == ",":
                todo += [x["r"], x["l"]]
            else:
                parts.append(x)
        steps = {}
        for x in parts:
            if not (isinstance(x, dict) and x.get("k") == "un" and x.get("op") in ("++", "--") and isinstance(x.get("e"), dict) and x["e"].get("k") == "ref") or x["e"]["d"] in steps:
                return {}
            steps[x["e"]["d"]] = 1 if x["op"] == "++" else -1
        other = set()
        self.modified_vars(s.get("body"), other)
        self.modified_vars(s.get("c"), other)
        if other & set(steps):
            return {}
        out = {}
        for d, st_ in steps.items():
            lv = f.binds.get(d)
            if lv is None or lv not in q.mem:
                return {}
            out[d] = (q.mem[lv], st_)
        if not any(self.elem_pos(v) is not None for v, _ in out.values()):
            return {}
        return out

    def apply_lockstep(self, q, f, induct, s):
        if not induct:
            return
        k = ("havoc", next(self.uid), "k")
        self.emit(q, "COUNTER", k, loc=s.get("loc"))
        for d, (v0, st_) in induct.items():
            n = k if st_ == 1 else lin("-", C(0), k)
            v = self.elem_advance(v0, n)
            q.mem[f.binds[d]] = v if v is not None else lin("+", v0, n)

    def _loop_end(self, q, fr, mods, s, outs, havoc=True, induct=None):
        f = self._fr(q, fr)
        for d in (mods if havoc else ()):
            lv = f.binds.get(d)
            if lv is not None:
                q.mem[lv] = ("havoc", next(self.uid), lv[2] if len(lv) > 2 else "v")
        self.emit(q, "LOOP_END", loc=s.get("loc"))
        q.loopdepth -= 1
        if havoc:
            self.apply_lockstep(q, f, induct, s)
        if havoc and s.get("s") in ("for", "while") and s.get("c") is not None and not getattr(self, "_in_exit_cond", False):
            # the loop was left normally: in the state after its last iteration the condition is false
            self._in_exit_cond = True
            try:
                for q2, c in self.ev(q, f, s["c"]):
                    if q2.status != "run":
                        continue
                    c = truthy(c)
                    # counting loops: a variable that is only ever advanced by +1 under the guard `v < N` cannot pass N
                    for g in ([c[1], c[2]] if isinstance(c, tuple) and c[:1] == ("and",) else [c]):
                        if isinstance(g, tuple) and g[:2] == ("cmp", "<") and isinstance(g[2], tuple) and g[2][:1] == ("havoc",):
                            nm_ = g[2][-1]
                            steps = [e for e in q2.events if e.kind == "STORE" and e.loop > q2.loopdepth and isinstance(e.a, tuple) and e.a[:1] == ("var",) and e.a[-1] == nm_]
                            if steps and all(isinstance(e.b, tuple) and e.b[:1] == ("lin",) and e.b[1] == 1 and len(e.b[2]) == 1 and e.b[2][0][1] == 1 and
                                             isinstance(e.b[2][0][0], tuple) and e.b[2][0][0][:1] == ("havoc",) and e.b[2][0][0][-1] == nm_ for e in steps):
                                self.assume(q2, cmp_("<=", g[2], g[3]), s.get("loc"), kind="loop-invariant")
                    if self.assume(q2, neg(c), s.get("loc"), kind="loop-exit"):
                        outs.append(q2)
            finally:
                self._in_exit_cond = False
            return
        outs.append(q)

    # ------------------------------------------------------------ entry
    def run(self, fn, this=("this",)):
        """Enumerate surviving paths of function fn. Returns list of Path results:
        each is (events, retval, state)."""
        self._closures = {}
        self.npaths = 0
        st = State()
        fr = Frame(0, fn, this, 0, ret_is_ref=bool((fn.get("ret") or {}).get("ref")))
        st.frames[0] = fr
        st.callstack = ()
        names = root_param_names(fn)
        for p, pn in zip(fn["params"], names):
            t = p["t"] or {}
            if t.get("ref") or self.is_rec(t):
                fr.binds[p["d"]] = ("pobj", pn)
            else:
                lv = ("var", "P", pn)
                st.mem[lv] = ("p", pn)
                fr.binds[p["d"]] = lv
        states = [st]
        if fn.get("kind") == "ctor":
            for ini in fn.get("inits", []):
                states = [s2 for s in states for s2 in self.exec_init(s, self._fr(s, fr), ini, this)]
        outs = []
        for s in states:
            outs += self.exec(s, self._fr(s, fr), fn.get("body"))
        paths = []
        for s in outs:
            if s.status == "abort":
                continue
            paths.append(PathResult(s.events, s.retval, s))
        self.mark_abort_checks(paths)
        self.flatten_nested_state(paths)
        return paths

    def nested_state_members(self):
        """names of data members that merely GROUP other members: a member whose type is a small aggregate of scalars declared inside
        the same class, none of whose member names collides with a member of the enclosing class.  `this->grp.x` is then presented
        as `this->x` (a class whose fields were gathered into a private struct has the same state)"""
        if hasattr(self, "_nested_members"):
            return self._nested_members
        out = set()
        for r in self.db.records:
            if r.get("dep") or (r.get("n") or "").startswith("std::"):
                continue
            own = {fl["n"] for fl in r.get("fields") or []}
            for fl in r.get("fields") or []:
                ft = fl.get("t") or {}
                if not self.is_rec(ft) or not strip_targs_name(ft.get("rn") or "").startswith(strip_targs_name(r.get("n") or "?") + "::"):
                    continue
                leaves = self.scalar_leaves(ft.get("rid"))
                if leaves and all(len(pth) == 1 for pth in leaves) and not ({pth[0] for pth in leaves} & own):
                    out.add(fl["n"])
        out |= set(getattr(self.db, "wrapper_members", ()) or ())
        self._nested_members = out
        return out

    def flatten_nested_state(self, paths):
        names = self.nested_state_members()
        if not names:
            return
        memo = {}

        def fl(t):
            if not isinstance(t, tuple):
                return t
            try:
                if t in memo:
                    return memo[t]
            except TypeError:
                return t
            r = tuple(fl(x) for x in t)
            if len(r) == 3 and r[0] == "fld" and isinstance(r[1], tuple) and len(r[1]) == 3 and r[1][0] == "fld" and r[1][2] in names:
                r = ("fld", r[1][1], r[2])
            memo[t] = r
            return r

        def flv(x):
            if isinstance(x, tuple):
                return fl(x)
            if isinstance(x, list):
                return [flv(y) for y in x]
            if isinstance(x, dict):
                return {k: flv(v) for k, v in x.items()}
            return x
        for p in paths:
            for e in p.events:
                e.a, e.b, e.c = flv(e.a), flv(e.b), flv(e.c)
                if e.extra:
                    for k in ("ret", "argvals", "target"):
                        if k in e.extra:
                            e.extra[k] = flv(e.extra[k])
            p.retval = flv(p.retval)
            p.state.retval = flv(p.state.retval)
            p.state.mem = {flv(k): flv(v) for k, v in p.state.mem.items()}

    @staticmethod
    def mark_abort_checks(paths):
        """Semantic definition of an abort check, independent of how it is written: a branch condition is an abort check on a
        surviving path iff NO surviving path shares the same history of decisions and took the opposite decision - i.e. the
        other side never returns (`check(c)`, `if (!c) abort()`, `if (c) return; fail();`, a helper that does any of these)."""
        seqs = []
        for p in paths:
            seqs.append([e for e in p.events if e.kind == "ASSUME"])
        hist = set()
        for sq in seqs:
            pre = ()
            for e in sq:
                hist.add((pre, e.a))
                pre = pre + (e.a,)
        for sq in seqs:
            pre = ()
            for e in sq:
                if not (e.extra or {}).get("abort_check") and isinstance(e.a, tuple) and (pre, neg(e.a)) not in hist:
                    if e.extra is None:
                        e.extra = {}
                    e.extra["abort_check"] = True
                pre = pre + (e.a,)


def root_param_names(fn):
    """unique names for root parameters (pack expansions share one name: params#0, params#1, ...)"""
    names = [p["n"] for p in fn["params"]]
    out = []
    seen = {}
    for n in names:
        if names.count(n) > 1 or n == "":
            k = seen.get(n, 0)
            seen[n] = k + 1
            out.append("%s#%d" % (n or "arg", k))
        else:
            out.append(n)
    return out


class PathResult:
    def __init__(self, events, retval, state):
        self.events = events
        self.retval = retval
        self.state = state

    def calls(self, name_pred=None):
        for i, e in enumerate(self.events):
            if e.kind == "CALL" and (name_pred is None or name_pred(e.a or "")):
                yield i, e

    def assumes_before(self, i):
        return [e.a for e in self.events[:i] if e.kind == "ASSUME"]

    def dump(self):
        return "\n".join("  " * len(e.stack) + repr(e) for e in self.events)
