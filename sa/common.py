"""Shared helpers for rule modules."""
from .engine import Engine, Inconclusive as EngInconclusive, truthy, neg, fmt

_check_cache = {}


def stmt_always_aborts(s):
    """structural: does this statement end in throw / noreturn call on every path?"""
    if s is None:
        return False
    k = s.get("s")
    if k == "block":
        return bool(s["b"]) and any(stmt_always_aborts(x) for x in s["b"])
    if k == "expr":
        e = s["e"]
        if e.get("k") == "throw":
            return True
        if e.get("k") == "call" and (e.get("fn") or {}).get("noret"):
            return True
        if e.get("k") == "call" and (e.get("fn") or {}).get("n") in ("abort", "std::abort", "std::terminate", "exit"):
            return True
        if e.get("k") == "bin" and e.get("op") == ",":
            return stmt_always_aborts({"s": "expr", "e": e["r"]}) or stmt_always_aborts({"s": "expr", "e": e["l"]})
        return False
    if k == "if":
        return stmt_always_aborts(s.get("then")) and stmt_always_aborts(s.get("else"))
    return False


def is_check_fn(db, fnref):
    """Semantic recogniser: a function with a bool first parameter b such that every
    surviving (non-aborting) path assumed b.  Independent of the name dynamic_check."""
    if not fnref:
        return False
    fid = fnref["id"]
    key = (id(db), fid)
    if key in _check_cache:
        return _check_cache[key]
    res = False
    f = db.fn_by_id.get(fid)
    if f and not f["dep"] and "body" in f and f["params"] and (f["params"][0]["t"] or {}).get("k") == "bool":
        try:
            paths = Engine(db, max_depth=6).run(f, this=("this",))
            want = truthy(("p", f["params"][0]["n"]))
            res = bool(paths) and all(any(e.kind == "ASSUME" and e.a == want for e in p.events) for p in paths)
        except EngInconclusive:
            res = False
    _check_cache[key] = res
    return res


def site(f):
    return f["n"]


def loc_of(x):
    l = x.get("loc") if isinstance(x, dict) else None
    return l or ""


def targ_types(f):
    return [t for t in (f.get("targt") or [])]


def pattern_key(f):
    """stable key: qualified name of the function pattern"""
    return f["n"]
