"""Engine C: compiler-judged witness corpora.

A witness is a small function compiled with -fsyntax-only against the real headers; the
compiler's verdict (accept / reject / failing oracle static_assert) is the decision.
Witnesses are batched (~80 per TU, 16 TUs in parallel); every verdict that would raise an
alarm is re-judged in a TU of its own before it is reported.
"""
import os
import re
import subprocess
import tempfile
from concurrent.futures import ThreadPoolExecutor

from . import facts

PLAIN_MARK = "VB_ORACLE_PLAIN"
HINT_MARK = "VB_ORACLE_NOT_HINT"
NOTBOOL_MARK = "VB_ORACLE_NOT_BOOL"
TYPE_MARK = "VB_ORACLE_TYPE"


class W:
    __slots__ = ("n", "kind", "body", "desc", "pre", "group")

    def __init__(self, kind, body, desc, pre="", group=""):
        self.n = None
        self.kind = kind  # must_reject | must_accept | wrapped_if_compiles | bool_or_reject | hint_or_reject
        self.body = body
        self.desc = desc
        self.pre = pre
        self.group = group


def render(ws, prelude="witness_prelude.hpp"):
    out = ['#include "%s"' % prelude]
    for w in ws:
        out.append('#line %d "W"' % w.n)
        pre = w.pre.replace("@N", str(w.n))
        body = w.body.replace("@N", str(w.n))
        out.append("%s void vb_w%d() { %s }" % (pre, w.n, body))
    return "\n".join(out) + "\n"


def compile_src(src, compiler="clang++", extra=()):
    with tempfile.NamedTemporaryFile("w", suffix=".cpp", dir=os.path.join(facts.VERIF, ".cache"), delete=False) as fh:
        fh.write(src)
        path = fh.name
    try:
        if compiler == "clang++":
            cmd = ["clang++", "-std=c++17", "-fsyntax-only", "-w", "-ferror-limit=0", "-fno-caret-diagnostics", "-fno-color-diagnostics", "-ftemplate-backtrace-limit=0",
                   "-I" + facts.INCLUDE, "-I" + facts.DRIVERS] + list(extra) + [path]
        else:
            cmd = ["g++", "-std=c++17", "-fsyntax-only", "-w", "-fmax-errors=0", "-fno-diagnostics-show-caret", "-fdiagnostics-color=never", "-ftemplate-backtrace-limit=0",
                   "-I" + facts.INCLUDE, "-I" + facts.DRIVERS] + list(extra) + [path]
        r = subprocess.run(cmd, capture_output=True, text=True)
        return r.returncode, r.stderr
    finally:
        os.unlink(path)


_loc = re.compile(r"(?:^|[\s(])W:(\d+)[:,]")


def attribute(stderr):
    """map witness number -> list of error messages.  A diagnostic group is: the context lines a compiler
    prints before an error (g++: 'In instantiation of ...', 'required from here'), the error line, and the
    note lines after it (clang: 'in instantiation of ... requested here').  The group belongs to the first
    W:<n> location found in the error line, else in its notes/context."""
    groups = []
    pending = []
    cur = None
    for line in stderr.splitlines():
        if re.search(r"\berror:", line):
            cur = {"ctx": pending, "err": line, "notes": []}
            groups.append(cur)
            pending = []
        elif re.search(r"\bnote:", line) and cur is not None:
            cur["notes"].append(line)
        else:
            # context for the next error (g++) - or trailing summary lines
            if cur is not None and not re.search(r"(In instantiation|required from|required by|In function|In member|In lambda|At global scope|In substitution|instantiated from|^In file included|^\s+from )", line):
                pass
            pending.append(line)
            if len(pending) > 80:
                pending = pending[-80:]
    out = {}
    last = [None]
    for g in groups:
        _assign(out, [g["err"]] + g["notes"] + g["ctx"], last)
    return out


def _assign(out, grp, last):
    err = grp[0]
    n = None
    for x in grp:
        m = _loc.search(x)
        if m:
            n = int(m.group(1))
            break
    if n is None:
        # clang prints the instantiation backtrace only for the first diagnostic of a context:
        # a follow-up error without any location of its own belongs to the same witness
        n = last[0]
    if n is None:
        out.setdefault(-1, []).append(err)
        return
    last[0] = n
    msgs = out.setdefault(n, [])
    if err not in msgs:
        msgs.append(err)


def judge(ws, compiler="clang++", batch=80, jobs=16, extra=(), prelude="witness_prelude.hpp"):
    """returns dict n -> (verdict, messages); verdict in accept | reject | oracle:<mark>"""
    os.makedirs(os.path.join(facts.VERIF, ".cache"), exist_ok=True)
    for i, w in enumerate(ws):
        if w.n is None:
            w.n = 1000 + i
    batches = [ws[i:i + batch] for i in range(0, len(ws), batch)]

    def run(b):
        rc, err = compile_src(render(b, prelude), compiler, extra)
        return b, rc, err

    res = {}
    unattributed = []
    with ThreadPoolExecutor(max_workers=jobs) as ex:
        for b, rc, err in ex.map(run, batches):
            att = attribute(err)
            if -1 in att:
                unattributed += att[-1]
            for w in b:
                msgs = att.get(w.n, [])
                res[w.n] = (classify(msgs), msgs)
    return res, unattributed


def classify(msgs):
    if not msgs:
        return "accept"
    for mark in (PLAIN_MARK, HINT_MARK, NOTBOOL_MARK, TYPE_MARK):
        if any(mark in m for m in msgs):
            # an oracle assertion failed; if there are *other* errors too the expression itself was rejected
            others = [m for m in msgs if not any(k in m for k in (PLAIN_MARK, HINT_MARK, NOTBOOL_MARK, TYPE_MARK))]
            if not others:
                return "oracle:" + mark
    return "reject"


def alarm(w, verdict):
    k = w.kind
    if k == "must_reject":
        return verdict != "reject"
    if k == "must_accept":
        return verdict != "accept"
    return verdict.startswith("oracle:")


def confirm(w, compiler="clang++", extra=(), prelude="witness_prelude.hpp"):
    """re-judge a single witness in a TU of its own"""
    res, _ = judge([w], compiler, batch=1, jobs=1, extra=extra, prelude=prelude)
    return res[w.n]
