"""Operator wiring rules shared by C05 (pointer arithmetic) and C16 (numeric operators)."""
from .. import q, abi
from ..engine import Engine, Inconclusive, lin, mul, C, is_const, fmt, cmp_, truthy, neg, subterms
from ..common import site

ARITH = ["+", "-", "*", "/", "%", "^", "&", "|", "<<", ">>"]
CMPS = ["==", "!=", "<", "<=", ">", ">="]
LOGIC = ["&&", "||"]
BASE = "rlbox::tainted_base_impl::operator"
ALL_OPNAMES = {"operator" + o for o in ARITH + CMPS + LOGIC + ["++", "--", "~", "!"]}
NO_INLINE = {BASE + o for o in ARITH + CMPS + LOGIC + ["++", "--", "~", "!"]}


def strip_casts(t, explicit=True):
    """drop conversion wrappers; explicit=False keeps casts that were written explicitly in the source ('xcast')"""
    while isinstance(t, tuple) and t and (t[0] == "cast" or (explicit and t[0] == "xcast") or (isinstance(t[0], str) and t[0].startswith("cast:"))):
        t = t[2]
    return t


def is_value_of(term, obj, allow_cast=True):
    """term is exactly the (possibly ABI-converted) value held by wrapper/plain object obj"""
    t = strip_casts(term, explicit=False) if allow_cast else term
    if not isinstance(t, tuple) or not t:
        return False
    if t[0] == "rd":
        lv = t[1]
    elif t[0] == "vrd":
        lv = t[2]
    elif t[0] in ("call", "ucall") and q.short(t[1] if t[0] == "call" else t[2]).startswith("impl_get_unsandboxed_pointer"):
        a = q.call_args(t)
        return bool(a) and is_value_of(a[0], obj)
    else:
        return False
    if lv == obj:
        return True
    return lv[0] == "fld" and lv[1] == obj and lv[2] in ("data", "val")


def ret_data(p):
    """value stored in the wrapper object returned by the path (or the plain returned value)"""
    v = _ret_data(p)

    def subst(t, depth=0):
        if not isinstance(t, tuple) or depth > 6:
            return t
        if t[:1] == ("tmp",):
            nv = p.state.mem.get(t)
            if isinstance(nv, tuple) and nv[:1] not in (("closure",),) and nv != t:
                return subst(nv, depth + 1)
            return t
        return tuple(subst(x, depth + 1) if isinstance(x, tuple) else x for x in t)

    if isinstance(v, tuple) and v[:1] in (("cast",), ("xcast",), ("lin",), ("mul",), ("bin",), ("un",)):
        v = subst(v)
    for _ in range(4):  # a scalar temporary materialised for a by-reference parameter stands for its content
        if isinstance(v, tuple) and v[:1] == ("tmp",) and p.state.mem.get(v) is not None and not isinstance(p.state.mem.get(v), dict):
            nv = p.state.mem.get(v)
            if isinstance(nv, tuple) and nv[:1] == ("closure",):
                break
            v = nv
        else:
            break
    return v


def _ret_data(p):
    r = p.retval
    if r is None:
        return None
    if isinstance(r, tuple) and r and r[0] in ("tmp", "var"):
        for fld in ("data", "val"):
            v = p.state.mem.get(("fld", r, fld))
            if v is not None:
                return v
        src = r
        for _ in range(8):  # follow the chain of copies / moves through which the result object was handed out
            src = p.state.mem.get(("copyof", src))
            if src is None:
                break
            for fld in ("data", "val"):
                v = p.state.mem.get(("fld", src, fld))
                if v is not None:
                    return v
        return None
    return r


def class_T(f):
    ct = f.get("ctargt") or []
    return ct[1] if len(ct) > 1 else None


def wrapper_kind(f):
    ca = f.get("ctargs") or []
    return (ca[0] if ca else "").split("::")[-1]


THIS_OBJ = ("deref", ("this",))


def expected_bin(eng, op, L, R):
    return eng.binop(op, L, R)


def check_numeric_member_binop(rep, prop, db, f, inst):
    """numeric instantiation of tainted_base_impl::operator<op>(const T_Rhs&)"""
    op = f["oo"]
    rule = "R-%s-wiring" % prop
    eng = Engine(db)
    try:
        ps = eng.run(f)
    except Inconclusive as ex:
        rep.inconclusive(rule, site(f), str(ex), inst)
        return
    if not ps:
        rep.violation(rule, site(f), "operator has no returning path", f["loc"], inst)
        return
    rhs = ("pobj", f["params"][0]["n"]) if f["params"] else None
    for p in ps:
        v = ret_data(p)
        if v is None:
            rep.inconclusive(rule, site(f), "cannot determine the returned value", inst)
            return
        ok = False
        # find L, R among subterms
        cands_L = [t for t in subterms(v) if is_value_of(t, THIS_OBJ)]
        cands_R = [t for t in subterms(v) if rhs is not None and is_value_of(t, rhs)]
        for L in cands_L[:4]:
            for R in cands_R[:4]:
                if expected_bin(eng, op, L, R) == v:
                    ok = True
        if ok:
            rep.ok(rule, site(f), "result == (this %s rhs) on the unwrapped operands: %s" % (op, fmt(v)[:120]), inst)
        else:
            rep.violation(rule, site(f), "operator %s does not compute `value(this) %s value(rhs)`: it yields %s" % (op, op, fmt(v)[:200]), f["loc"], inst)
            return


def check_free_binop(rep, prop, db, f, inst):
    """rlbox::operator<op>(const T_Lhs& lhs, const tainted_base_impl<...>& rhs) - plain-left forms"""
    op = f["oo"]
    rule = "R-%s-wiring" % prop
    eng = Engine(db)
    try:
        ps = eng.run(f)
    except Inconclusive as ex:
        rep.inconclusive(rule, site(f), str(ex), inst)
        return
    lhs = ("pobj", f["params"][0]["n"])
    rhs = ("pobj", f["params"][1]["n"])
    for p in ps:
        v = ret_data(p)
        if v is None:
            rep.inconclusive(rule, site(f), "cannot determine the returned value", inst)
            return
        cands_L = [t for t in subterms(v) if is_value_of(t, lhs)]
        cands_R = [t for t in subterms(v) if is_value_of(t, rhs)]
        ok = any(expected_bin(eng, op, L, R) == v for L in cands_L[:4] for R in cands_R[:4])
        if ok:
            rep.ok(rule, site(f) + " [plain-left]", "result == (lhs %s rhs): %s" % (op, fmt(v)[:120]), inst)
        else:
            rep.violation(rule, site(f) + " [plain-left]", "plain-left operator %s does not compute `lhs %s value(rhs)` in that order: it yields %s" % (op, op, fmt(v)[:200]), f["loc"], inst)
            return


def check_unary(rep, prop, db, f, inst):
    op = f["oo"]
    rule = "R-%s-wiring" % prop
    eng = Engine(db)
    try:
        ps = eng.run(f)
    except Inconclusive as ex:
        rep.inconclusive(rule, site(f), str(ex), inst)
        return
    for p in ps:
        v = ret_data(p)
        if v is None:
            rep.inconclusive(rule, site(f), "cannot determine the returned value", inst)
            return
        Ls = [t for t in subterms(v) if is_value_of(t, THIS_OBJ)]
        exp = []
        for L in Ls[:4]:
            if op == "-":
                exp.append(lin("-", C(0), L))
            elif op == "~":
                exp.append(("un", "~", L))
            elif op == "!":
                exp.append(neg(truthy(L)))
        if v in exp:
            rep.ok(rule, site(f) + " [unary]", "result == %s value(this)" % op, inst)
        else:
            rep.violation(rule, site(f) + " [unary]", "unary %s yields %s" % (op, fmt(v)[:160]), f["loc"], inst)
            return


def calls_on_this(p, names):
    out = []
    for e in p.events:
        if e.kind == "CALL" and e.a and q.short(e.a) in names and e.c in (("this",), ("addr", THIS_OBJ)):
            out.append(e)
    return out


def check_derived(rep, prop, db, f, inst):
    """compound assignment / pre / post increment-decrement are defined through the matching binary operator.
    Judged on the events, whatever the call structure between the derived forms (prefix through `op=`, postfix through prefix or
    through `op=`, a shared helper, a lambda): on every path exactly one call of the BINARY operator `base` on *this with the
    operand given (compound) / the constant 1 (++ --), its result assigned to *this, and the value returned is *this (prefix,
    compound) or a snapshot of *this taken before the update (postfix)."""
    rule = "R-%s-derived" % prop
    oo = f["oo"]
    nparams = len(f["params"])
    form = "prefix" if oo in ("++", "--") and nparams == 0 else "postfix" if oo in ("++", "--") else "compound"
    base = oo[0] if form != "compound" else oo[:-1]
    binary_only = {BASE + o for o in ARITH + CMPS + LOGIC + ["~", "!"]}  # the derived forms themselves are inlined
    eng = Engine(db, no_inline=binary_only)
    try:
        ps = eng.run(f)
    except Inconclusive as ex:
        rep.inconclusive(rule, site(f), str(ex), inst)
        return
    tag = (" [%s]" % form) if form != "compound" else ""
    for p in ps:
        cs = calls_on_this(p, ALL_OPNAMES)
        why = None
        opposite = {"+": "-", "-": "+"}.get(base)
        if form != "compound" and len(cs) == 1 and q.short(cs[0].a) == "operator" + str(opposite) and len(cs[0].b) == 1:
            # x - 1 spelled x + (-1) (and x + 1 spelled x - (-1)): the same value for every arithmetic and pointer type (modular for
            # unsigned / addresses, exact for signed and floating point)
            if not _is_const(p, cs[0].b[0], -1):
                why = "%s%s applies operator%s with %s instead of -1" % (oo, "x" if form == "prefix" else "", opposite, fmt(cs[0].b[0])[:60])
        elif len(cs) != 1 or q.short(cs[0].a) != "operator" + base or len(cs[0].b) != 1:
            why = "expected exactly one application of binary operator%s to the object; found %s" % (base, [q.short(c.a) for c in cs])
        else:
            a = cs[0].b[0]
            if form == "compound":
                rhs = ("pobj", f["params"][0]["n"])
                src = a
                for _ in range(4):
                    c_ = p.state.mem.get(("copyof", src)) if isinstance(src, tuple) else None
                    if c_ is None:
                        break
                    src = c_
                if not (a == rhs or src == rhs or p.state.mem.get(a) == ("rd", rhs)):
                    why = "the operand handed to operator%s is %s, not the operand of the compound assignment" % (base, fmt(a)[:80])
            elif not _is_one(p, a):
                why = "%s%s applies operator%s with %s instead of 1" % (oo, "x" if form == "prefix" else "", base, fmt(a)[:60])
        if why is None and not _assigned_to_this(p, cs[0]):
            why = "the result of operator%s is not assigned to the object" % base
        if why is None:
            r = p.retval
            if form in ("prefix", "compound"):
                if r != THIS_OBJ:
                    why = "the value returned is %s, not the updated object" % fmt(r)[:60]
            else:
                call_idx = p.events.index(cs[0])
                snaps = [e.a for i_, e in enumerate(p.events) if e.kind == "COPY" and e.b == THIS_OBJ and i_ < call_idx]
                chain = {r}
                cur = r
                for _ in range(6):
                    nxt = next((e.b for e in p.events if e.kind == "COPY" and e.a == cur), None)
                    if nxt is None:
                        break
                    chain.add(nxt)
                    cur = nxt
                if not any(s_ in chain for s_ in snaps):
                    why = "the value returned (%s) is not a snapshot of the object taken before the update" % fmt(r)[:60]
        if why:
            rep.violation(rule, site(f) + tag, "%s %s is not `x = x %s %s`%s: %s" % (form, oo, base, "y" if form == "compound" else "1",
                          "" if form != "postfix" else " returning the old value", why), f["loc"], inst)
            return
    rep.ok(rule, site(f) + tag, {"prefix": "%sx is x = x %s 1 and returns x" % (oo, base), "postfix": "x%s saves x, applies x = x %s 1, returns the saved value" % (oo, base),
                                  "compound": "x %s y is x = x %s y" % (oo, base)}[form], inst)


def _is_const(p, t, k):
    if t == C(k):
        return True
    if isinstance(t, tuple) and t and t[0] in ("tmp", "var"):
        return p.state.mem.get(t) == C(k)
    return False


def _is_one(p, t):
    return _is_const(p, t, 1)


def _assigned_to_this(p, call):
    """the value returned by `call` is stored into *this (operator= call, or inlined converting store)"""
    if call is None:
        return False
    r = (call.extra or {}).get("ret")
    i = p.events.index(call)
    for e in p.events[i + 1:]:
        if e.kind == "CALL" and q.short(e.a) == "operator=" and e.c in (("this",), ("addr", THIS_OBJ)) and e.b and e.b[0] == r:
            return True
        if e.kind == "STORE" and e.a[0] == "fld" and e.a[1] == THIS_OBJ and e.a[2] == "data":
            v = strip_casts(e.b)
            if isinstance(v, tuple) and v and v[0] in ("rd", "vrd"):
                lv = v[1] if v[0] == "rd" else v[2]
                if lv[0] == "fld" and lv[1] == r:
                    return True
            # pointer conversion to sandbox representation of the result
            if isinstance(v, tuple) and v and v[0] in ("call", "ucall") and any(isinstance(x, tuple) and x[:1] == ("fld",) and x[1] == r for x in subterms(v)):
                return True
        if e.kind == "STORE" and e.a == THIS_OBJ and e.b == r:
            return True
        if e.kind == "COPY" and e.a == THIS_OBJ and e.b == r:
            return True
    return False


def mentions_param_env(e, d, env, depth=0):
    """does expression e mention the declaration d, directly or through locals / parameters of inlined helpers bound in env?"""
    if isinstance(e, dict):
        if e.get("k") == "ref":
            if e.get("d") == d:
                return True
            if depth < 6 and e.get("d") in env and e.get("dk") in ("param", "local"):
                return mentions_param_env(env[e["d"]], d, env, depth + 1)
            return False
        return any(mentions_param_env(v, d, env, depth) for v in e.values() if isinstance(v, (dict, list)))
    if isinstance(e, list):
        return any(mentions_param_env(v, d, env, depth) for v in e)
    return False


def exact_offset(db, f):
    """Exact (modulo 2^64) evaluation of `target - base` as a function of the index, over ALL values of the index type,
    from the instantiated AST (implicit conversions, widths and signedness as clang inserted them; helpers inlined and updated
    locals followed: sa/astwalk.py).  Returns (pieces, index type) or raises interval.Inconclusive."""
    from ..interval import Evaluator, trange, Inconclusive as IvI
    from ..astwalk import Walker, Hooks, Unhandled
    from .c17 import mentions_param
    env = {}
    found = {}

    class H(Hooks):
        def decl(self, v):
            if "init" in v and "var" not in found and (v["t"] or {}).get("k") in ("int", "bool", "enum") and mentions_param_env(v["init"], f["params"][0]["d"], env):
                found["var"], found["t"] = v["d"], v["t"]

        def call(self, e, inlined):
            if (e.get("fn") or {}).get("n", "").endswith("is_in_same_sandbox") and len(e.get("args", [])) >= 2 and "tgt" not in found:
                # the target as it is at the check: freeze the locals it mentions
                found["tgt"] = e["args"][1]
                found["env"] = dict(env)

        def branch(self, st):
            pass

    try:
        Walker(db, H(), env).walk(f["body"])
    except Unhandled as ex:
        raise IvI(str(ex))
    if "var" not in found or "tgt" not in found:
        raise IvI("index variable / containment check not found")
    env2 = {k: v for k, v in (found.get("env") or env).items() if k != found["var"]}
    ev = Evaluator({found["var"]}, env2, ptr_zero=True, db=db)
    pieces = ev.ev(found["tgt"], [trange(found["t"])])
    return pieces, found["t"]


def check_pointer_arith(rep, db, f, inst, label):
    """C05: pointer branch of operator+ / operator- / operator[]"""
    oo = f["oo"]
    T = class_T(f) or {}
    eng = Engine(db)
    try:
        ps = eng.run(f)
    except Inconclusive as ex:
        rep.inconclusive("R-C05-check", site(f), str(ex), inst)
        return
    try:
        want_stride = abi.size_align(db, T.get("pte"), abi.abi_of(label))[0]
    except abi.Unknown as ex:
        rep.inconclusive("R-C05-stride", site(f), "ABI model does not know pointee %s" % ex, inst)
        return
    sign = -1 if oo == "-" else 1
    rhs = ("pobj", f["params"][0]["n"])
    if not ps:
        rep.violation("R-C05-check", site(f), "no returning path", f["loc"], inst)
    for p in ps:
        if oo == "[]":
            r = p.retval
            tgt = r[1] if isinstance(r, tuple) and r and r[0] == "deref" else None
        else:
            tgt = ret_data(p)
        if tgt is None:
            rep.inconclusive("R-C05-check", site(f), "cannot determine the produced address", inst)
            return
        conds = q.conds_before(p, len(p.events))
        bases = [a for a, b in q.same_sandbox_facts(conds) if b == tgt]
        if not bases:
            rep.violation("R-C05-check", site(f), "the produced address %s is not covered by a dominating is_in_same_sandbox(base, target) check" % fmt(tgt)[:160], f["loc"], inst)
            continue
        base = bases[0]
        if not is_value_of(base, THIS_OBJ):
            rep.violation("R-C05-check", site(f), "containment is checked against %s, which is not the pointer value of the operand" % fmt(base)[:120], f["loc"], inst)
            continue
        rep.ok("R-C05-check", site(f), "target checked against base with is_in_same_sandbox", inst)
        if q.nonnull(conds, base):
            rep.ok("R-C05-null", site(f), "base != null dominates", inst)
        else:
            rep.violation("R-C05-null", site(f) + " [null base]", "no dominating null check of the base pointer: arithmetic on a null tainted pointer yields a small non-null address", f["loc"], inst)
        off = lin("-", tgt, base)
        if not (isinstance(off, tuple) and off[0] in ("lin", "c")):
            off = ("lin", 0, ((off, 1),))
        ok = False
        stride_seen = None
        if off[0] == "lin" and off[1] == 0 and len(off[2]) == 1:
            atom, coef = off[2][0]
            stride_seen = coef
            if is_value_of(atom, rhs) and coef == sign * want_stride:
                ok = True
        if ok:
            rep.ok("R-C05-stride", site(f), "target = base %s %d*index (guest size of %s)" % ("-" if sign < 0 else "+", want_stride, T.get("pte")), inst)
        else:
            rep.violation("R-C05-stride", site(f), "target - base is %s; expected %s%d * index where %d is the size of '%s' under the sandbox ABI" % (
                fmt(off)[:120], "-" if sign < 0 else "+", want_stride, want_stride, T.get("pte")), f["loc"], inst)
        # exact check over every value of the index type (widths/signedness of every intermediate conversion)
        try:
            from ..interval import Inconclusive as IvI
            pieces, it = exact_offset(db, f)
            M = 1 << 64
            s_ = sign * want_stride
            bad_piece = None
            for lo, hi, a, b in pieces:
                if lo == hi:
                    if (a * lo + b - s_ * lo) % M != 0:
                        bad_piece = (lo, hi, a, b)
                elif (a - s_) % M != 0 or b % M != 0:
                    bad_piece = (lo, hi, a, b)
                if bad_piece:
                    break
            if bad_piece:
                lo, hi, a, b = bad_piece
                rep.violation("R-C05-stride", site(f) + " [exact]", "for index type %s and index values in [%d, %d] the address produced is base + (%d*n + %d) mod 2^64, not base %s %d*n" % (
                    it.get("u"), lo, hi, a, b, "-" if sign < 0 else "+", want_stride), f["loc"], inst)
            else:
                rep.ok("R-C05-stride", site(f) + " [exact]", "target == base %s %d*n (mod 2^64) for every value of index type %s" % ("-" if sign < 0 else "+", want_stride, it.get("u")), inst)
        except Exception as ex:
            if ex.__class__.__name__ == "Inconclusive":
                rep.inconclusive("R-C05-stride", site(f) + " [exact]", str(ex), inst)
            else:
                raise
        # overflow of index*stride
        idx_bound = None
        atom = off[2][0][0] if off[0] == "lin" and off[2] else None
        if atom is not None:
            ub = [u for op_, u in q.upper_bounds(conds, atom)]
            if ub or want_stride == 1:
                rep.ok("R-C05-ovf", site(f), "index bounded or stride 1", inst)
            else:
                rep.violation("R-C05-ovf", site(f) + " [index*stride]", "index*stride (%d) can wrap modulo 2^64 before the containment check (no bound on the index)" % want_stride, f["loc"], inst)


CHECKED_CONV = "rlbox::detail::convert_type_fundamental"


def unchecked_conversion(p, v):
    """a narrowing / sign-changing integer conversion contained in value v that was performed (on this path) by some function other
    than the checked conversion routine; returns (cast term, functions) or None"""
    for c_ in subterms(v):
        if isinstance(c_, tuple) and c_ and c_[0] in ("cast", "xcast"):
            org = p.state.mem.get(("castorigin", c_))
            if org and any(o != CHECKED_CONV for o in org):
                return c_, [o for o in org if o != CHECKED_CONV]
    return None
