"""Operator wiring rules shared by C05 (pointer arithmetic) and C16 (numeric operators)."""
from .. import q, abi
from ..engine import Engine, Inconclusive, lin, mul, C, is_const, fmt, cmp_, truthy, neg, subterms
from ..common import site

ARITH = ["+", "-", "*", "/", "%", "^", "&", "|", "<<", ">>"]
CMPS = ["==", "!=", "<", "<=", ">", ">="]
LOGIC = ["&&", "||"]
BASE = "rlbox::tainted_base_impl::operator"
ALL_OPNAMES = {"operator" + o for o in ARITH + CMPS + LOGIC + ["++", "--", "~", "!"]}
NO_INLINE = {BASE + o for o in ARITH + CMPS + LOGIC + ["++", "--", "~", "!"]}


def strip_casts(t, explicit=True):
    """drop conversion wrappers; explicit=False keeps casts that were written explicitly in the source ('xcast')"""
    while isinstance(t, tuple) and t and (t[0] == "cast" or (explicit and t[0] == "xcast") or (isinstance(t[0], str) and t[0].startswith("cast:"))):
        t = t[2]
    return t


def is_value_of(term, obj, allow_cast=True):
    """term is exactly the (possibly ABI-converted) value held by wrapper/plain object obj"""
    t = strip_casts(term, explicit=False) if allow_cast else term
    if not isinstance(t, tuple) or not t:
        return False
    if t[0] == "rd":
        lv = t[1]
    elif t[0] == "vrd":
        lv = t[2]
    elif t[0] in ("call", "ucall") and q.short(t[1] if t[0] == "call" else t[2]).startswith("impl_get_unsandboxed_pointer"):
        a = q.call_args(t)
        return bool(a) and is_value_of(a[0], obj)
    else:
        return False
    if lv == obj:
        return True
    return lv[0] == "fld" and lv[1] == obj and lv[2] in ("data", "val")


def ret_data(p):
    """value stored in the wrapper object returned by the path (or the plain returned value)"""
    v = _ret_data(p)

    def subst(t, depth=0):
        if not isinstance(t, tuple) or depth > 6:
            return t
        if t[:1] == ("tmp",):
            nv = p.state.mem.get(t)
            if isinstance(nv, tuple) and nv[:1] not in (("closure",),) and nv != t:
                return subst(nv, depth + 1)
            return t
        return tuple(subst(x, depth + 1) if isinstance(x, tuple) else x for x in t)

    if isinstance(v, tuple) and v[:1] in (("cast",), ("xcast",), ("lin",), ("mul",), ("bin",), ("un",)):
        v = subst(v)
    for _ in range(4):  # a scalar temporary materialised for a by-reference parameter stands for its content
        if isinstance(v, tuple) and v[:1] == ("tmp",) and p.state.mem.get(v) is not None and not isinstance(p.state.mem.get(v), dict):
            nv = p.state.mem.get(v)
            if isinstance(nv, tuple) and nv[:1] == ("closure",):
                break
            v = nv
        else:
            break
    return v


def _ret_data(p):
    r = p.retval
    if r is None:
        return None
    if isinstance(r, tuple) and r and r[0] in ("tmp", "var"):
        for fld in ("data", "val"):
            v = p.state.mem.get(("fld", r, fld))
            if v is not None:
                return v
        src = r
        for _ in range(8):  # follow the chain of copies / moves through which the result object was handed out
            src = p.state.mem.get(("copyof", src))
            if src is None:
                break
            for fld in ("data", "val"):
                v = p.state.mem.get(("fld", src, fld))
                if v is not None:
                    return v
        return None
    return r


def class_T(f):
    ct = f.get("ctargt") or []
    return ct[1] if len(ct) > 1 else None


def wrapper_kind(f):
    ca = f.get("ctargs") or []
    return (ca[0] if ca else "").split("::")[-1]


THIS_OBJ = ("deref", ("this",))


def expected_bin(eng, op, L, R):
    return eng.binop(op, L, R)


def check_numeric_member_binop(rep, prop, db, f, inst):
    """numeric instantiation of tainted_base_impl::operator<op>(const T_Rhs&)"""
    op = f["oo"]
    rule = "R-%s-wiring" % prop
    eng = Engine(db)
    try:
        ps = eng.run(f)
    except Inconclusive as ex:
        rep.inconclusive(rule, site(f), str(ex), inst)
        return
    if not ps:
        rep.violation(rule, site(f), "operator has no returning path", f["loc"], inst)
        return
    rhs = ("pobj", f["params"][0]["n"]) if f["params"] else None
    for p in ps:
        v = ret_data(p)
        if v is None:
            rep.inconclusive(rule, site(f), "cannot determine the returned value", inst)
            return
        ok = False
        # find L, R among subterms
        cands_L = [t for t in subterms(v) if is_value_of(t, THIS_OBJ)]
        cands_R = [t for t in subterms(v) if rhs is not None and is_value_of(t, rhs)]
        for L in cands_L[:4]:
            for R in cands_R[:4]:
                if expected_bin(eng, op, L, R) == v:
                    ok = True
        if ok:
            rep.ok(rule, site(f), "result == (this %s rhs) on the unwrapped operands: %s" % (op, fmt(v)[:120]), inst)
        else:
            rep.violation(rule, site(f), "operator %s does not compute `value(this) %s value(rhs)`: it yields %s" % (op, op, fmt(v)[:200]), f["loc"], inst)
            return


def check_free_binop(rep, prop, db, f, inst):
    """rlbox::operator<op>(const T_Lhs& lhs, const tainted_base_impl<...>& rhs) - plain-left forms"""
    op = f["oo"]
    rule = "R-%s-wiring" % prop
    eng = Engine(db)
    try:
        ps = eng.run(f)
    except Inconclusive as ex:
        rep.inconclusive(rule, site(f), str(ex), inst)
        return
    lhs = ("pobj", f["params"][0]["n"])
    rhs = ("pobj", f["params"][1]["n"])
    for p in ps:
        v = ret_data(p)
        if v is None:
            rep.inconclusive(rule, site(f), "cannot determine the returned value", inst)
            return
        cands_L = [t for t in subterms(v) if is_value_of(t, lhs)]
        cands_R = [t for t in subterms(v) if is_value_of(t, rhs)]
        ok = any(expected_bin(eng, op, L, R) == v for L in cands_L[:4] for R in cands_R[:4])
        if ok:
            rep.ok(rule, site(f) + " [plain-left]", "result == (lhs %s rhs): %s" % (op, fmt(v)[:120]), inst)
        else:
            rep.violation(rule, site(f) + " [plain-left]", "plain-left operator %s does not compute `lhs %s value(rhs)` in that order: it yields %s" % (op, op, fmt(v)[:200]), f["loc"], inst)
            return


def check_unary(rep, prop, db, f, inst):
    op = f["oo"]
    rule = "R-%s-wiring" % prop
    eng = Engine(db)
    try:
        ps = eng.run(f)
    except Inconclusive as ex:
        rep.inconclusive(rule, site(f), str(ex), inst)
        return
    for p in ps:
        v = ret_data(p)
        if v is None:
            rep.inconclusive(rule, site(f), "cannot determine the returned value", inst)
            return
        Ls = [t for t in subterms(v) if is_value_of(t, THIS_OBJ)]
        exp = []
        for L in Ls[:4]:
            if op == "-":
                exp.append(lin("-", C(0), L))
            elif op == "~":
                exp.append(("un", "~", L))
            elif op == "!":
                exp.append(neg(truthy(L)))
        if v in exp:
            rep.ok(rule, site(f) + " [unary]", "result == %s value(this)" % op, inst)
        else:
            rep.violation(rule, site(f) + " [unary]", "unary %s yields %s" % (op, fmt(v)[:160]), f["loc"], inst)
            return


def calls_on_this(p, names):
    out = []
    for e in p.events:
        if e.kind == "CALL" and e.a and q.short(e.a) in names and e.c in (("this",), ("addr", THIS_OBJ)):
            out.append(e)
    return out


def check_derived(rep, prop, db, f, inst):
    """compound assignment / pre / post increment-decrement are defined through the matching binary operator"""
    rule = "R-%s-derived" % prop
    oo = f["oo"]
    eng = Engine(db, no_inline=NO_INLINE)
    try:
        ps = eng.run(f)
    except Inconclusive as ex:
        rep.inconclusive(rule, site(f), str(ex), inst)
        return
    nparams = len(f["params"])
    for p in ps:
        if oo in ("++", "--") and nparams == 0:
            want = "operator" + oo[0]
            cs = calls_on_this(p, ALL_OPNAMES)
            good = len(cs) == 1 and q.short(cs[0].a) == want and len(cs[0].b) == 1 and cs[0].b[0] in (C(1), ("rd", ("tmp",)),) or (len(cs) == 1 and q.short(cs[0].a) == want and len(cs[0].b) == 1 and _is_one(p, cs[0].b[0]))
            stored = _assigned_to_this(p, cs[0] if cs else None)
            if good and stored and p.retval == THIS_OBJ:
                rep.ok(rule, site(f) + " [prefix]", "%sx is x = x %s 1 and returns x" % (oo, oo[0]), inst)
            else:
                rep.violation(rule, site(f) + " [prefix]", "prefix %s is not `this = this %s 1; return this` (calls: %s)" % (oo, oo[0], [q.short(c.a) + str([fmt(a) for a in c.b]) for c in cs]), f["loc"], inst)
                return
        elif oo in ("++", "--") and nparams == 1:
            cs = calls_on_this(p, ALL_OPNAMES)
            copies = [e for e in p.events if e.kind == "COPY" and e.b == THIS_OBJ]
            first_copy = min([p.events.index(e) for e in copies], default=None)
            call_idx = p.events.index(cs[0]) if cs else None
            ok = (len(cs) == 1 and q.short(cs[0].a) == "operator" + oo and len(cs[0].b) == 0 and first_copy is not None and first_copy < call_idx)
            # the returned object must be (a copy of) the snapshot taken before the update
            snap_ok = False
            if ok:
                snap = copies[0].a
                r = p.retval
                chain = {r}
                cur = r
                for _ in range(4):
                    cur = p.state.mem.get(("copyof", cur))
                    if cur is None:
                        break
                    chain.add(cur)
                snap_ok = snap in chain or p.state.mem.get(("copyof", r)) == THIS_OBJ and False
                # copyof chains are collapsed to the original source; compare the COPY events
                if not snap_ok:
                    for e in p.events:
                        if e.kind == "COPY" and e.a == r and e.b == snap:
                            snap_ok = True
            if ok and snap_ok:
                rep.ok(rule, site(f) + " [postfix]", "x%s saves x, applies prefix %s, returns the saved value" % (oo, oo), inst)
            else:
                rep.violation(rule, site(f) + " [postfix]", "postfix %s must snapshot the value, apply prefix %s to the object and return the snapshot; found calls %s" % (
                    oo, oo, [q.short(c.a) for c in cs]), f["loc"], inst)
                return
        else:
            # compound assignment  op=
            base = oo[:-1]
            cs = calls_on_this(p, ALL_OPNAMES)
            rhs = ("pobj", f["params"][0]["n"])
            good = len(cs) == 1 and q.short(cs[0].a) == "operator" + base and len(cs[0].b) == 1 and (cs[0].b[0] == rhs or p.state.mem.get(("copyof", cs[0].b[0])) == rhs or p.state.mem.get(cs[0].b[0]) == ("rd", rhs))
            stored = _assigned_to_this(p, cs[0] if cs else None)
            if good and stored and p.retval == THIS_OBJ:
                rep.ok(rule, site(f), "x %s y is x = x %s y" % (oo, base), inst)
            else:
                rep.violation(rule, site(f), "compound %s is not `this = this %s rhs; return this` (calls: %s)" % (oo, base, [q.short(c.a) for c in cs]), f["loc"], inst)
                return


def _is_one(p, t):
    if t == C(1):
        return True
    if isinstance(t, tuple) and t and t[0] in ("tmp", "var"):
        return p.state.mem.get(t) == C(1)
    return False


def _assigned_to_this(p, call):
    """the value returned by `call` is stored into *this (operator= call, or inlined converting store)"""
    if call is None:
        return False
    r = (call.extra or {}).get("ret")
    i = p.events.index(call)
    for e in p.events[i + 1:]:
        if e.kind == "CALL" and q.short(e.a) == "operator=" and e.c in (("this",), ("addr", THIS_OBJ)) and e.b and e.b[0] == r:
            return True
        if e.kind == "STORE" and e.a[0] == "fld" and e.a[1] == THIS_OBJ and e.a[2] == "data":
            v = strip_casts(e.b)
            if isinstance(v, tuple) and v and v[0] in ("rd", "vrd"):
                lv = v[1] if v[0] == "rd" else v[2]
                if lv[0] == "fld" and lv[1] == r:
                    return True
            # pointer conversion to sandbox representation of the result
            if isinstance(v, tuple) and v and v[0] in ("call", "ucall") and any(isinstance(x, tuple) and x[:1] == ("fld",) and x[1] == r for x in subterms(v)):
                return True
        if e.kind == "STORE" and e.a == THIS_OBJ and e.b == r:
            return True
        if e.kind == "COPY" and e.a == THIS_OBJ and e.b == r:
            return True
    return False


def exact_offset(db, f):
    """Exact (modulo 2^64) evaluation of `target - base` as a function of the index, over ALL values of the index type,
    from the instantiated AST (implicit conversions, widths and signedness as clang inserted them).
    Returns (pieces, index type) or raises interval.Inconclusive."""
    from ..interval import Evaluator, trange, Inconclusive as IvI
    from .c17 import mentions_param
    env = {}
    found = {}

    def walk(x):
        if isinstance(x, dict):
            if x.get("s") == "decl":
                for v in x["v"]:
                    if v.get("sa") or "init" not in v:
                        continue
                    env[v["d"]] = v["init"]
                    if "var" not in found and (v["t"] or {}).get("k") in ("int", "bool", "enum") and mentions_param(v["init"], f["params"][0]["d"]):
                        found["var"], found["t"] = v["d"], v["t"]
            if x.get("k") == "bin" and x.get("op") in ("=", "+=", "-=") and isinstance(x.get("l"), dict) and x["l"].get("k") == "ref" and x["l"].get("dk") == "local" and "tgt" not in found:
                # a local that is updated after its declaration (`target += stride * n`): its value from here on
                d_ = x["l"]["d"]
                if x["op"] == "=":
                    env[d_] = x["r"]
                elif d_ in env:
                    env[d_] = {"k": "bin", "op": x["op"][0], "l": env[d_], "r": x["r"], "t": x.get("t") or x["l"].get("t"), "loc": x.get("loc")}
            if x.get("k") == "call" and (x.get("fn") or {}).get("n", "").endswith("is_in_same_sandbox") and len(x.get("args", [])) >= 2 and "tgt" not in found:
                # the target as it is at the check: freeze the locals it mentions
                found["tgt"] = x["args"][1]
                found["env"] = dict(env)
            for v in x.values():
                if isinstance(v, (dict, list)):
                    walk(v)
        elif isinstance(x, list):
            for v in x:
                walk(v)

    walk(f["body"])
    if "var" not in found or "tgt" not in found:
        raise IvI("index variable / containment check not found")
    env2 = {k: v for k, v in (found.get("env") or env).items() if k != found["var"]}
    ev = Evaluator({found["var"]}, env2, ptr_zero=True)
    pieces = ev.ev(found["tgt"], [trange(found["t"])])
    return pieces, found["t"]


def check_pointer_arith(rep, db, f, inst, label):
    """C05: pointer branch of operator+ / operator- / operator[]"""
    oo = f["oo"]
    T = class_T(f) or {}
    eng = Engine(db)
    try:
        ps = eng.run(f)
    except Inconclusive as ex:
        rep.inconclusive("R-C05-check", site(f), str(ex), inst)
        return
    try:
        want_stride = abi.size_align(db, T.get("pte"), abi.abi_of(label))[0]
    except abi.Unknown as ex:
        rep.inconclusive("R-C05-stride", site(f), "ABI model does not know pointee %s" % ex, inst)
        return
    sign = -1 if oo == "-" else 1
    rhs = ("pobj", f["params"][0]["n"])
    if not ps:
        rep.violation("R-C05-check", site(f), "no returning path", f["loc"], inst)
    for p in ps:
        if oo == "[]":
            r = p.retval
            tgt = r[1] if isinstance(r, tuple) and r and r[0] == "deref" else None
        else:
            tgt = ret_data(p)
        if tgt is None:
            rep.inconclusive("R-C05-check", site(f), "cannot determine the produced address", inst)
            return
        conds = q.conds_before(p, len(p.events))
        bases = [a for a, b in q.same_sandbox_facts(conds) if b == tgt]
        if not bases:
            rep.violation("R-C05-check", site(f), "the produced address %s is not covered by a dominating is_in_same_sandbox(base, target) check" % fmt(tgt)[:160], f["loc"], inst)
            continue
        base = bases[0]
        if not is_value_of(base, THIS_OBJ):
            rep.violation("R-C05-check", site(f), "containment is checked against %s, which is not the pointer value of the operand" % fmt(base)[:120], f["loc"], inst)
            continue
        rep.ok("R-C05-check", site(f), "target checked against base with is_in_same_sandbox", inst)
        if q.nonnull(conds, base):
            rep.ok("R-C05-null", site(f), "base != null dominates", inst)
        else:
            rep.violation("R-C05-null", site(f) + " [null base]", "no dominating null check of the base pointer: arithmetic on a null tainted pointer yields a small non-null address", f["loc"], inst)
        off = lin("-", tgt, base)
        if not (isinstance(off, tuple) and off[0] in ("lin", "c")):
            off = ("lin", 0, ((off, 1),))
        ok = False
        stride_seen = None
        if off[0] == "lin" and off[1] == 0 and len(off[2]) == 1:
            atom, coef = off[2][0]
            stride_seen = coef
            if is_value_of(atom, rhs) and coef == sign * want_stride:
                ok = True
        if ok:
            rep.ok("R-C05-stride", site(f), "target = base %s %d*index (guest size of %s)" % ("-" if sign < 0 else "+", want_stride, T.get("pte")), inst)
        else:
            rep.violation("R-C05-stride", site(f), "target - base is %s; expected %s%d * index where %d is the size of '%s' under the sandbox ABI" % (
                fmt(off)[:120], "-" if sign < 0 else "+", want_stride, want_stride, T.get("pte")), f["loc"], inst)
        # exact check over every value of the index type (widths/signedness of every intermediate conversion)
        try:
            from ..interval import Inconclusive as IvI
            pieces, it = exact_offset(db, f)
            M = 1 << 64
            s_ = sign * want_stride
            bad_piece = None
            for lo, hi, a, b in pieces:
                if lo == hi:
                    if (a * lo + b - s_ * lo) % M != 0:
                        bad_piece = (lo, hi, a, b)
                elif (a - s_) % M != 0 or b % M != 0:
                    bad_piece = (lo, hi, a, b)
                if bad_piece:
                    break
            if bad_piece:
                lo, hi, a, b = bad_piece
                rep.violation("R-C05-stride", site(f) + " [exact]", "for index type %s and index values in [%d, %d] the address produced is base + (%d*n + %d) mod 2^64, not base %s %d*n" % (
                    it.get("u"), lo, hi, a, b, "-" if sign < 0 else "+", want_stride), f["loc"], inst)
            else:
                rep.ok("R-C05-stride", site(f) + " [exact]", "target == base %s %d*n (mod 2^64) for every value of index type %s" % ("-" if sign < 0 else "+", want_stride, it.get("u")), inst)
        except Exception as ex:
            if ex.__class__.__name__ == "Inconclusive":
                rep.inconclusive("R-C05-stride", site(f) + " [exact]", str(ex), inst)
            else:
                raise
        # overflow of index*stride
        idx_bound = None
        atom = off[2][0][0] if off[0] == "lin" and off[2] else None
        if atom is not None:
            ub = [u for op_, u in q.upper_bounds(conds, atom)]
            if ub or want_stride == 1:
                rep.ok("R-C05-ovf", site(f), "index bounded or stride 1", inst)
            else:
                rep.violation("R-C05-ovf", site(f) + " [index*stride]", "index*stride (%d) can wrap modulo 2^64 before the containment check (no bound on the index)" % want_stride, f["loc"], inst)


CHECKED_CONV = "rlbox::detail::convert_type_fundamental"


def unchecked_conversion(p, v):
    """a narrowing / sign-changing integer conversion contained in value v that was performed (on this path) by some function other
    than the checked conversion routine; returns (cast term, functions) or None"""
    for c_ in subterms(v):
        if isinstance(c_, tuple) and c_ and c_[0] in ("cast", "xcast"):
            org = p.state.mem.get(("castorigin", c_))
            if org and any(o != CHECKED_CONV for o in org):
                return c_, [o for o in org if o != CHECKED_CONV]
    return None
