"""C02 - application pointers and foreign-sandbox data cannot enter a sandbox unchecked."""
from .. import facts, witness, q
from ..witness import W
from ..engine import Engine, Inconclusive, C, fmt
from ..common import site
from .c01 import lv, generic_site

LEVEL = "exploration"
THIS_OBJ = ("deref", ("this",))

CBPRE = {  # helper declarations placed in front of the witness function
}


def build_corpus(tier):
    ws = []
    Mn = "M<@N>"
    other = "M<@N + 100000>"
    T = lambda t, m=Mn: "vb_lv<tainted<%s, %s>>()" % (t, m)
    V = lambda t, m=Mn: "vb_lv<tainted_volatile<%s, %s>>()" % (t, m)
    S = "vb_lv<SB<@N>>()"

    def rej(code, desc, pre="", group="reject"):
        ws.append(W("must_reject", code, desc, pre=pre, group=group))

    def acc(code, desc, pre="", group="accept"):
        ws.append(W("must_accept", code, desc, pre=pre, group=group))

    ptr_types = ["int*", "char*", "void*", "const int*"] if tier == "quick" else ["int*", "char*", "void*", "const int*", "long*", "int**", "VbW*", "unsigned char*"]
    raw = {"int*": "vb_gp", "char*": "vb_gcp", "void*": "(void*)vb_gp", "const int*": "(const int*)vb_gp", "long*": "&vb_gl", "int**": "&vb_gp", "VbW*": "(VbW*)nullptr + 1", "unsigned char*": "(unsigned char*)vb_gcp"}
    # ---- raw pointers into tainted / tainted_volatile
    for pt in ptr_types:
        r = raw[pt]
        rej("tainted<%s, %s> t = %s; (void)t;" % (pt, Mn, r), "tainted<%s> = raw pointer (copy-init)" % pt)
        rej("tainted<%s, %s> t(%s); (void)t;" % (pt, Mn, r), "tainted<%s>(raw pointer)" % pt)
        rej("tainted<%s, %s> t{%s}; (void)t;" % (pt, Mn, r), "tainted<%s>{raw pointer}" % pt)
        rej("%s = %s;" % (T(pt), r), "tainted<%s> assigned a raw pointer" % pt)
        rej("%s = %s;" % (V(pt), r), "tainted_volatile<%s> assigned a raw pointer" % pt)
        rej("*%s = %s;" % (T(pt + "*"), r), "*tainted<%s*> assigned a raw pointer" % pt)
        rej("%s[0] = %s;" % (T(pt + "*"), r), "tainted<%s*>[0] assigned a raw pointer" % pt)
        rej("tainted<void*, %s> t = %s; (void)t;" % (Mn, r), "tainted<void*> = raw %s" % pt)
        acc("%s.assign_raw_pointer(%s, %s);" % (T(pt), S, r), "control: tainted<%s>.assign_raw_pointer(sandbox, raw) [run-time checked entry]" % pt)
        acc("%s.assign_raw_pointer(%s, %s);" % (V(pt), S, r), "control: tainted_volatile<%s>.assign_raw_pointer(sandbox, raw)" % pt)
        acc("auto t = %s.UNSAFE_accept_pointer(%s); static_assert(std::is_same_v<decltype(t), tainted<%s, %s>>, \"%s\"); (void)t;" % (S, r, pt, Mn, witness.TYPE_MARK), "control: UNSAFE_accept_pointer(%s)" % pt)
        acc("%s = nullptr; %s = nullptr;" % (T(pt), V(pt)), "control: nullptr assignment to tainted/tainted_volatile<%s>" % pt)
        acc("%s = %s; %s = %s;" % (V(pt), T(pt), T(pt), V(pt)), "control: tainted<->tainted_volatile<%s> of the same sandbox" % pt)
    # incompatible pointer types through the checked entry
    rej("%s.assign_raw_pointer(%s, vb_gcp);" % (T("int*"), S), "assign_raw_pointer with an incompatible pointer type (char* into int*)")
    rej("%s.assign_raw_pointer(%s, 5);" % (T("int*"), S), "assign_raw_pointer with a non-pointer")
    rej("%s.assign_raw_pointer(%s, vb_gcp);" % (V("int*"), S), "tainted_volatile.assign_raw_pointer with an incompatible pointer type")
    rej("auto t = %s.UNSAFE_accept_pointer(5); (void)t;" % S, "UNSAFE_accept_pointer with a non-pointer")
    # raw function pointers / arrays of raw pointers
    rej("tainted<int (*)(int), %s> t = &vb_fplain; (void)t;" % Mn, "tainted<fnptr> = raw function pointer")
    rej("%s = &vb_fplain;" % T("int (*)(int)"), "tainted<fnptr> assigned a raw function pointer")
    rej("%s = &vb_fplain;" % V("int (*)(int)"), "tainted_volatile<fnptr> assigned a raw function pointer")
    rej("*%s = &vb_fplain;" % T("int (**)(int)"), "*tainted<fnptr*> assigned a raw function pointer")
    rej("%s = vb_gparr;" % V("int*[4]"), "tainted_volatile<int*[4]> assigned an array of raw pointers")
    rej("*%s = vb_gparr;" % T("int*(*)[4]"), "*tainted<int*(*)[4]> assigned an array of raw pointers")
    rej("tainted<int*[4], %s> t = vb_gparr; (void)t;" % Mn, "tainted<int*[4]> = array of raw pointers")
    # arrays of raw (function) pointers in either array spelling, against every destination whose sandbox representation could hold an
    # address, under the foreign ABI (M) and the host ABI (H: the representation of the bundled backends)
    Hn = "H<@N>"
    srcs = [("vb_gparr", "int*[4]"), ("vb_sarr", "std::array<int*,4>"), ("vb_gfarr", "int(*[4])(int)"), ("vb_sfarr", "std::array<int(*)(int),4>")]
    dsts = ["int*[4]", "unsigned long long[4]", "unsigned long[4]", "void*[4]", "int (*[4])(int)"] + ([] if tier == "quick" else ["long[4]", "unsigned int[4]", "long long[4]", "const int*[4]", "char*[4]"])
    for sexpr, sdesc in srcs:
        for d in dsts:
            for mtag, mdesc in ((Mn, "foreign ABI"), (Hn, "host ABI")):
                rej("%s = %s;" % (V(d, mtag), sexpr), "tainted_volatile<%s> (%s) assigned %s of raw pointers" % (d, mdesc, sdesc), group="ptr-array")
                if tier != "quick" or d in ("int*[4]", "unsigned long long[4]"):
                    rej("%s = %s;" % (T(d, mtag), sexpr), "tainted<%s> (%s) assigned %s of raw pointers" % (d, mdesc, sdesc), group="ptr-array")
    for mtag, mdesc in ((Mn, "foreign ABI"), (Hn, "host ABI")):
        acc("%s = vb_lv<std::array<unsigned long, 4>>(); %s = vb_lv<unsigned long[4]>();" % (V("unsigned long[4]", mtag), V("unsigned long[4]", mtag)), "control: tainted_volatile<unsigned long[4]> (%s) assigned arrays of integers" % mdesc, group="ptr-array")
        acc("%s = %s; %s = nullptr;" % (V("int*", mtag), T("int*", mtag), V("int*", mtag)), "control: pointer stores (%s)" % mdesc, group="ptr-array")
    # ---- wrappers of another sandbox type into tainted (application memory)
    rej("tainted<int*, %s> t = %s; (void)t;" % (Mn, T("int*", other)), "tainted<int*> initialised from another sandbox type's tainted")
    rej("%s = %s;" % (T("int*"), T("int*", other)), "tainted<int*> assigned another sandbox type's tainted")
    rej("%s = %s;" % (T("int"), T("int", other)), "tainted<int> assigned another sandbox type's tainted")
    rej("%s = %s;" % (T("int"), "vb_lv<tainted<int, rlbox_noop_sandbox>>()"), "tainted<int> assigned a noop-sandbox tainted")
    # ---- wrappers of another sandbox type into tainted_volatile (sandbox memory)
    for t_ in (["int*", "int"] if tier == "quick" else ["int*", "int", "void*", "long", "const char*"]):
        rej("%s = %s;" % (V(t_), T(t_, other)), "tainted_volatile<%s> assigned another sandbox type's tainted" % t_, group="foreign-store")
        rej("%s = %s;" % (V(t_), V(t_, other)), "tainted_volatile<%s> assigned another sandbox type's tainted_volatile" % t_, group="foreign-store")
        rej("*%s = %s;" % (T(t_ + "*"), T(t_, other)), "*tainted<%s*> assigned another sandbox type's tainted" % t_, group="foreign-store")
        rej("%s[1] = %s;" % (T(t_ + "*"), V(t_, other)), "tainted<%s*>[1] assigned another sandbox type's tainted_volatile" % t_, group="foreign-store")
    rej("%s = %s;" % (V("int (*)(int)"), T("int (*)(int)", other)), "tainted_volatile<fnptr> assigned another sandbox type's tainted function pointer", group="foreign-store")
    rej("%s = vb_lv<sandbox_callback<int (*)(int), %s>>();" % (V("int (*)(int)"), other), "tainted_volatile<fnptr> assigned another sandbox type's callback", group="foreign-store")
    rej("%s = vb_lv<tainted<int, rlbox_noop_sandbox>>();" % V("int"), "tainted_volatile<int> assigned a noop-sandbox tainted", group="foreign-store")
    rej("%s = %s;" % (V("VbW"), T("VbW", other)), "tainted_volatile<struct> assigned another sandbox type's tainted struct", group="foreign-store")
    rej("%s = %s;" % (T("int"), V("int", other)), "tainted<int> assigned another sandbox type's tainted_volatile", group="foreign-store")
    rej("tainted<int*, %s> t = %s; (void)t;" % (Mn, V("int*", other)), "tainted<int*> initialised from another sandbox type's tainted_volatile", group="foreign-store")
    # ---- call arguments
    inv = lambda f, args: "%s.invoke_sandbox_function(%s%s);" % (S, f, (", " + args) if args else "")
    rej(inv("vb_takes_ptr", "vb_gp"), "invoke with a raw pointer argument")
    rej(inv("vb_takes_fn", "&vb_fplain"), "invoke with a raw function pointer argument")
    rej(inv("vb_takes_ptr", T("int*", other)), "invoke with a tainted pointer of another sandbox type")
    rej(inv("vb_fplain", T("int", other)), "invoke with a tainted int of another sandbox type")
    rej(inv("vb_fplain", "vb_lv<tainted<int, rlbox_noop_sandbox>>()"), "invoke with a tainted int of the noop sandbox type")
    rej(inv("vb_fplain", "vb_lv<tainted_opaque<int, %s>>()" % other), "invoke with a tainted_opaque of another sandbox type")
    rej(inv("vb_takes_fn", "vb_lv<sandbox_callback<int (*)(int), %s>>()" % other), "invoke with a callback of another sandbox type")
    rej(inv("vb_takes_ptr", T("int*") + ".UNSAFE_unverified()"), "invoke with an unwrapped (raw) pointer")
    rej(inv("vb_takes_s", "vb_lv<VbW>()"), "invoke with a plain struct")
    rej(inv("vb_takes_ptr", "vb_gparr"), "invoke with an array of raw pointers")
    rej(inv("vb_takes_ptr", T("char*")), "invoke with a tainted pointer of the wrong pointee type")
    rej(inv("vb_takes_fn", "vb_lv<sandbox_callback<long (*)(long), %s>>()" % Mn), "invoke with a callback of the wrong signature")
    rej(inv("vb_takes_fn", T("long (*)(long)")), "invoke with a tainted function pointer of the wrong signature")
    acc(inv("vb_takes_ptr", T("int*")), "control: invoke with a tainted pointer")
    acc(inv("vb_takes_ptr", "nullptr"), "control: invoke with nullptr")
    acc(inv("vb_fplain", "5"), "control: invoke with a primitive")
    acc(inv("vb_fplain", T("int")), "control: invoke with a tainted int")
    acc(inv("vb_fplain", "vb_lv<tainted_opaque<int, %s>>()" % Mn), "control: invoke with a tainted_opaque")
    acc(inv("vb_takes_fn", "vb_lv<sandbox_callback<int (*)(int), %s>>()" % Mn), "control: invoke with a callback of matching signature")
    acc(inv("vb_takes_s", T("VbW")), "control: invoke with a tainted struct")
    acc(inv("vb_takes_ptr", V("int*")), "control: invoke with a tainted_volatile pointer")
    # a pointer cannot be conjured from a wrapped integer (nor leak into one) through the sandbox casts
    for src_t in ("unsigned long", "long", "unsigned int"):
        rej("auto t = sandbox_reinterpret_cast<int*>(%s); (void)t;" % T(src_t), "sandbox_reinterpret_cast<int*>(tainted<%s>): integer to pointer" % src_t)
    rej("auto t = sandbox_reinterpret_cast<char*>(%s); (void)t;" % V("unsigned long"), "sandbox_reinterpret_cast<char*>(tainted_volatile<unsigned long>): integer to pointer")
    rej("auto t = sandbox_reinterpret_cast<unsigned long>(%s); (void)t;" % T("int*"), "sandbox_reinterpret_cast<unsigned long>(tainted<int*>): pointer to integer")
    rej("auto t = sandbox_static_cast<int*>(%s); (void)t;" % T("unsigned long"), "sandbox_static_cast<int*>(tainted<unsigned long>): integer to pointer")
    rej("auto t = sandbox_const_cast<int*>(%s); (void)t;" % T("unsigned long"), "sandbox_const_cast<int*>(tainted<unsigned long>): integer to pointer")
    acc("auto t = sandbox_reinterpret_cast<char*>(%s); static_assert(std::is_same_v<decltype(t), tainted<char*, %s>>, \"%s\"); (void)t;" % (T("int*"), Mn, witness.TYPE_MARK), "control: sandbox_reinterpret_cast between pointer types")
    # arithmetic of a wrapped integer with a RAW pointer must not produce a wrapped pointer
    rej("auto t = %s + vb_gp; (void)t;" % T("long"), "tainted<long> + raw int*")
    rej("auto t = %s - vb_gp; (void)t;" % T("long"), "tainted<long> - raw int*")
    rej("auto t = %s + vb_gp; (void)t;" % V("long"), "tainted_volatile<long> + raw int*")
    rej("auto t = %s + vb_gcp; (void)t;" % T("unsigned long"), "tainted<unsigned long> + raw char*")
    for lt_ in ("VbEnum", "bool", "char", "short", "unsigned char", "long long"):
        rej("auto t = %s + vb_gp; (void)t;" % T(lt_), "tainted<%s> + raw int* (every left operand type that promotes to an integer)" % lt_)
    rej("auto t = %s + vb_gp; (void)t;" % V("VbEnum"), "tainted_volatile<VbEnum> + raw int*")
    rej("auto t = %s + %s; (void)t;" % (T("VbEnum"), T("int*")), "tainted<VbEnum> + tainted<int*> (unchecked native pointer arithmetic)")
    rej("auto t = %s + %s; (void)t;" % (T("long"), T("int*")), "tainted<long> + tainted<int*> (unchecked native pointer arithmetic)")
    rej("auto t = 3 + %s; (void)t;" % T("int*"), "3 + tainted<int*> (unchecked native pointer arithmetic)")
    # free / stdlib on foreign wrappers
    rej("%s.free_in_sandbox(%s);" % (S, T("int*", other)), "free_in_sandbox with another sandbox type's pointer")
    rej("rlbox::memcpy(%s, %s, %s, 4u);" % (S, T("int*", other), T("int*")), "memcpy with another sandbox type's destination")
    # ---- callback registration shapes
    cb = lambda ret, params: "static %s vb_cb@N(%s);" % (ret, params)
    reg = "auto c = %s.register_callback(vb_cb@N); (void)c;" % S
    TI = "tainted<int, %s>" % Mn
    rej(reg, "register_callback: no sandbox reference parameter", pre=cb(TI, TI + " a"))
    rej(reg, "register_callback: no parameters at all", pre=cb(TI, ""))
    rej(reg, "register_callback: non-tainted parameter", pre=cb(TI, "SB<@N>&, int a"))
    rej(reg, "register_callback: raw pointer parameter", pre=cb(TI, "SB<@N>&, int* a"))
    rej(reg, "register_callback: array parameter", pre=cb(TI, "SB<@N>&, tainted<int[4], %s> a" % Mn))
    rej(reg, "register_callback: non-tainted non-void return", pre=cb("int", "SB<@N>&, " + TI + " a"))
    rej(reg, "register_callback: raw pointer return", pre=cb("int*", "SB<@N>&"))
    rej(reg, "register_callback: mixed tainted and plain parameters", pre=cb(TI, "SB<@N>&, " + TI + " a, long b"))
    rej(reg, "register_callback: sandbox passed by value", pre=cb(TI, "SB<@N>, " + TI + " a"))
    rej(reg, "register_callback: sandbox reference of another sandbox type", pre=cb(TI, "rlbox_sandbox<%s>&, %s a" % (other, TI)))
    rej(reg, "register_callback: tainted_volatile parameter", pre=cb(TI, "SB<@N>&, tainted_volatile<int, %s>& a" % Mn))
    rej(reg, "register_callback: parameter tainted for another sandbox type (used with invoke)" if False else "register_callback: hint return type", pre=cb("tainted_boolean_hint", "SB<@N>&"))
    # wrappers of ANOTHER sandbox type in the callback's signature (the sandbox reference itself is the right one)
    rej(reg, "register_callback: parameter tainted for another sandbox type", pre=cb(TI, "SB<@N>&, tainted<int, %s> a" % other))
    rej(reg, "register_callback: pointer parameter tainted for another sandbox type", pre=cb(TI, "SB<@N>&, " + TI + " a, tainted<int*, %s> b" % other))
    rej(reg, "register_callback: return value tainted for another sandbox type", pre=cb("tainted<int*, %s>" % other, "SB<@N>&, " + TI + " a"))
    rej(reg, "register_callback: tainted_opaque parameter of another sandbox type", pre=cb(TI, "SB<@N>&, tainted_opaque<long, %s> a" % other))
    rej(reg, "register_callback: void callback with a parameter tainted for another sandbox type", pre=cb("void", "SB<@N>&, tainted<char*, %s> a" % other))
    acc(reg, "control: register_callback tainted(sandbox&, tainted)", pre=cb(TI, "SB<@N>&, " + TI + " a"))
    acc(reg, "control: register_callback void(sandbox&)", pre=cb("void", "SB<@N>&"))
    acc(reg, "control: register_callback with tainted_opaque parameter and return", pre=cb("tainted_opaque<int*, %s>" % Mn, "SB<@N>&, tainted_opaque<long, %s> a, tainted<char*, %s> b" % (Mn, Mn)))
    # ---- storing callbacks / function addresses: function-pointer type must match
    regok = "auto c = %s.register_callback(vb_cb@N);" % S
    rej(regok + " *%s = c;" % T("int (**)(int)"), "callback long(long) stored into an int(*)(int) cell", pre=cb("tainted<long, %s>" % Mn, "SB<@N>&, tainted<long, %s> a" % Mn))
    acc(regok + " *%s = c; %s[1] = c;" % (T("int (**)(int)"), T("int (**)(int)")), "control: callback int(int) stored into an int(*)(int) cell", pre=cb(TI, "SB<@N>&, " + TI + " a"))
    rej(regok + " tainted<int (*)(int), %s> t = c; (void)t;" % Mn, "sandbox_callback stored into a tainted (application memory)", pre=cb(TI, "SB<@N>&, " + TI + " a"))
    rej(regok + " %s = c;" % T("int (*)(int)"), "sandbox_callback assigned to a tainted (application memory)", pre=cb(TI, "SB<@N>&, " + TI + " a"))
    rej("auto fa = %s.get_sandbox_function_address(vb_fplain2); tainted<int (*)(int), %s> t = fa; (void)t;" % (S, Mn), "function address long(long) stored into tainted<int(*)(int)>")
    acc("auto fa = %s.get_sandbox_function_address(vb_fplain); tainted<int (*)(int), %s> t = fa; *%s = fa; (void)t;" % (S, Mn, T("int (**)(int)")), "control: function address of matching type stored")
    # last clause of the statement: tainted_volatile cells
    ws.append(W("must_reject", "auto fa = %s.get_sandbox_function_address(vb_fplain2); *%s = fa;" % (S, T("int (**)(int)")), "function address long(long) stored into an int(*)(int) cell in sandbox memory", group="fnptr-cell"))
    ws.append(W("must_reject", "*%s = %s;" % (T("int (**)(int)"), T("long (*)(long)")), "tainted<long(*)(long)> stored into an int(*)(int) cell in sandbox memory", group="fnptr-cell"))
    ws.append(W("must_reject", "*%s = *%s;" % (T("int (**)(int)"), T("long (**)(long)")), "tainted_volatile<long(*)(long)> stored into an int(*)(int) cell in sandbox memory", group="fnptr-cell"))
    return ws


def run(rep, tier):
    rep.rule("W-C02-reject", "raw T*, raw function pointers, arrays of raw pointers and wrappers of another sandbox type do not compile as tainted initialisers/assignments, tainted_volatile assignments, "
             "call arguments; malformed callback signatures do not register; sandbox_callback / function addresses cannot be stored where the function-pointer type differs or into application-memory tainted")
    rep.rule("W-C02-accept", "must-accept controls for each well-formed shape (keeps the corpus from passing vacuously)")
    rep.rule("R-C02-checked-entry", "in tainted::assign_raw_pointer, tainted_volatile::assign_raw_pointer and UNSAFE_accept_pointer the store into the wrapper's storage is dominated by an abort check "
             "is_pointer_in_sandbox_memory(v) on the SAME sandbox parameter and the SAME value v that is stored (for the volatile form: the value passed to get_sandboxed_pointer of that sandbox)")
    rep.rule("R-C02-writers", "every function that writes a pointer-typed parameter value into tainted<T*>::data is private, a static failure, or covered by R-C02-checked-entry")
    ws = build_corpus(tier)
    for i, w in enumerate(ws):
        w.n = 1000 + i
    res, unattr = witness.judge(ws, "clang++", batch=40)
    rep.require(len(unattr) == 0, "compiler errors that could not be attributed to a witness: %s" % unattr[:3])
    stats = {}
    for w in ws:
        verdict, msgs = res[w.n]
        if witness.alarm(w, verdict):
            verdict, msgs = witness.confirm(w)
        stats[(w.kind, verdict)] = stats.get((w.kind, verdict), 0) + 1
        rule = "W-C02-accept" if w.kind == "must_accept" else "W-C02-reject"
        if witness.alarm(w, verdict):
            what = "a program that must not compile is accepted" if w.kind == "must_reject" else "a well-formed use no longer compiles (%s)" % (msgs[:1] or [""])[0][:200]
            st = "shape: " + w.desc[:110]
            if w.group == "fnptr-cell":
                st = "rlbox::tainted_volatile::operator= [pointer type agreement]"
            rep.violation(rule, st, "%s: `%s %s`" % (what, w.pre.replace("@N", "N"), w.body.replace("@N", "N")[:220]), "W:%d" % w.n, w.desc, {"witness": w.body})
        else:
            rep.ok(rule, "shape: " + w.desc[:110], verdict, w.desc)
    rep.extra["witnesses"] = len(ws)
    rep.extra["verdicts"] = {"%s/%s" % k: v for k, v in sorted(stats.items())}
    rep.extra["exhaustive"] = True
    if tier == "thorough":
        res2, _ = witness.judge(ws, "g++", batch=40)
        for w in ws:
            v2 = res2[w.n][0]
            if witness.alarm(w, v2) and w.group != "fnptr-cell":
                v3, m3 = witness.confirm(w, "g++")
                if witness.alarm(w, v3):
                    rep.violation("W-C02-reject", "shape: " + w.desc[:100] + " [g++]", "g++ 12 judges this witness differently: %s" % v3, "W:%d" % w.n, w.desc)
    # ---- checked entry points
    dbs = facts.load_core(["model32"] if tier == "quick" else ["model32", "noop"], ["PTR"], thorough=(tier == "thorough"))
    n = 0
    for db in dbs:
        rep.units.append(db.label)
        for f in db.functions:
            if f["dep"] or "body" not in f:
                continue
            inst = "%s | %s" % (db.label, f["full"][:150])
            try:
                if f["n"] in ("rlbox::tainted::assign_raw_pointer", "rlbox::tainted_volatile::assign_raw_pointer", "rlbox::rlbox_sandbox::UNSAFE_accept_pointer"):
                    check_entry(rep, db, f, inst)
                    n += 1
            except Inconclusive as ex:
                rep.inconclusive("R-C02-checked-entry", site(f), str(ex), inst)
        check_writers(rep, db)
    rep.require(n >= 30, "only %d checked-entry instantiations (floor 30)" % n)
    rep.require(len(ws) >= 100, "corpus too small")
    rep.require(stats.get(("must_accept", "accept"), 0) >= 30, "too few accepted controls")
    rep.assumptions += ["the backend's membership predicate impl_is_pointer_in_sandbox_memory is exact (backend contract)",
                        "storing a wrapper of another sandbox type into a tainted_volatile cell is accepted by the library and is restricted by the statement only for call arguments (observation, no verdict)"]


def check_entry(rep, db, f, inst):
    rule = "R-C02-checked-entry"
    ps = Engine(db).run(f)
    if not ps:
        rep.violation(rule, site(f), "no returning path", f["loc"], inst)
        return
    if f["sn"] == "UNSAFE_accept_pointer":
        val = ("p", f["params"][0]["n"])
        sbx = ("this",)
    else:
        val = ("p", f["params"][1]["n"])
        sbx = ("addr", ("pobj", f["params"][0]["n"]))
    for p in ps:
        stores = [(i, e) for i, e in enumerate(p.events) if e.kind == "STORE" and e.a[0] == "fld" and e.a[2] == "data"]
        if not stores:
            rep.violation(rule, site(f), "nothing is stored", f["loc"], inst)
            return
        for i, e in stores:
            conds = q.conds_before(p, i)
            checked = [c[2] for c in conds if c[0] == "cmp" and c[1] == "!=" and c[3] == C(0) and q.is_call(c[2], "impl_is_pointer_in_sandbox_memory")]
            okc = [c for c in checked if q.call_args(c) == (val,) and c[-1] == sbx]
            if not okc:
                rep.violation(rule, site(f), "the pointer is stored without a dominating abort check is_pointer_in_sandbox_memory(value) on the given sandbox (checks seen: %s)" % [fmt(c)[:80] for c in checked], e.loc, inst)
                return
            v = e.b
            if f["n"].startswith("rlbox::tainted_volatile::"):
                good = (v == C(0) and q.is_null_assumed(conds, val)) or (q.is_call(v, "impl_get_sandboxed_pointer") and q.call_args(v) == (val,) and v[-1] == sbx)
            else:
                good = v == val
            if not good:
                rep.violation(rule, site(f), "the value stored (%s) is not the value that was checked (%s)" % (fmt(v)[:100], fmt(val)), e.loc, inst)
                return
    rep.ok(rule, site(f), "store dominated by the membership check of the same value on the same sandbox", inst)


def check_writers(rep, db):
    """who-may-write: constructors/members of tainted<pointer> that store a pointer-typed parameter"""
    rule = "R-C02-writers"
    for f in db.functions:
        if f["dep"] or "body" not in f or not f["n"].startswith("rlbox::tainted::"):
            continue
        ct = (f.get("ctargt") or [None])[0] or {}
        if ct.get("k") not in ("ptr", "fnptr"):
            continue
        ptr_params = [p_ for p_ in f["params"] if (p_["t"] or {}).get("k") in ("ptr", "fnptr")]
        if not ptr_params:
            continue
        inst = "%s | %s" % (db.label, f["full"][:150])
        if f["sn"] == "assign_raw_pointer":
            continue
        if f.get("access") == 2:
            rep.ok(rule, site(f), "private (reachable only from friends: internal_factory callers are covered by C03)", inst, nontrivial=False)
            continue
        # public: must be a static failure (never instantiable without error)
        sa_failed = has_failed_static_assert(f["body"])
        if sa_failed:
            rep.ok(rule, site(f), "public pointer constructor is a static failure", inst)
        else:
            rep.violation(rule, site(f) + " [public raw-pointer writer]", "public member %s stores a raw pointer parameter into a tainted without a check" % f["full"][:100], f["loc"], inst)


def has_failed_static_assert(x):
    if isinstance(x, dict):
        if x.get("sa") and x.get("failed"):
            return True
        return any(has_failed_static_assert(v) for v in x.values() if isinstance(v, (dict, list)))
    if isinstance(x, list):
        return any(has_failed_static_assert(v) for v in x)
    return False
