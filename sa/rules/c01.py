"""C01 - sandbox data cannot lose its taint implicitly (compiler-judged corpus + public-surface rule)."""
import os
import re
from .. import facts, witness
from ..witness import W, PLAIN_MARK, HINT_MARK

LEVEL = "exploration"

TYPES_QUICK = ["int", "bool", "double", "int*", "int (*)(int)", "int[4]", "VbW"]
TYPES_FULL = ["int", "unsigned char", "long", "unsigned long long", "bool", "double", "float", "VbEnum", "int*", "char*", "void*", "int**", "int (*)(int)", "int[4]", "VbW", "short", "char16_t"]
PTRLIKE = {"int*", "char*", "void*", "int**", "int (*)(int)"}
BINOPS = ["+", "-", "*", "/", "%", "^", "&", "|", "<<", ">>", "==", "!=", "<", "<=", ">", ">=", "&&", "||"]
CMPS = {"==", "!=", "<", "<=", ">", ">="}
WRAPPERS = ["tainted", "tainted_volatile", "tainted_opaque"]


def lv(wrapper, T):
    return "vb_lv<%s<%s, M<@N>>>()" % (wrapper, T)


def operands(types):
    ops = []
    for wname in WRAPPERS:
        for T in types:
            ops.append((wname, T, lv(wname, T)))
    ops.append(("sandbox_callback", "int (*)(int)", lv("sandbox_callback", "int (*)(int)")))
    ops.append(("app_pointer", "int*", lv("app_pointer", "int*")))
    ops.append(("hint", "bool", "vb_lv<tainted_boolean_hint>()"))
    ops.append(("inthint", "int", "vb_lv<tainted_int_hint>()"))
    return ops


def plain_of(T):
    if T == "int[4]":
        return "int*"
    return T


def expr_w(expr, desc, allow_bool=False, want_hint=False, group="expr"):
    if want_hint:
        body = "auto&& r = (%s); static_assert(vb_is_hint<decltype(r)>, \"%s\"); (void)r;" % (expr, HINT_MARK)
        return W("hint_or_reject", body, desc, group=group)
    if allow_bool:
        body = "auto&& r = (%s); static_assert(vb_still_wrapped<decltype(r)> || vb_is_bool<decltype(r)>, \"%s\"); (void)r;" % (expr, PLAIN_MARK)
        return W("wrapped_if_compiles", body, desc, group=group)
    body = "auto&& r = (%s); static_assert(vb_still_wrapped<decltype(r)>, \"%s\"); (void)r;" % (expr, PLAIN_MARK)
    return W("wrapped_if_compiles", body, desc, group=group)


def build_corpus(tier):
    types = TYPES_QUICK if tier == "quick" else TYPES_FULL
    ws = []
    ops = operands(types)
    rights_q = [("same", None), ("tainted<int>", lv("tainted", "int")), ("plain 1", "1"), ("nullptr", "nullptr"), ("hint", "vb_lv<tainted_boolean_hint>()"), ("tainted_volatile<int>", lv("tainted_volatile", "int"))]
    rights_f = rights_q + [("plain ptr", "vb_gp"), ("plain 1.5", "1.5"), ("inthint", "vb_lv<tainted_int_hint>()"), ("tainted_volatile<bool>", lv("tainted_volatile", "bool"))]
    rights = rights_q if tier == "quick" else rights_f
    lefts_plain = [("plain 1", "1")] if tier == "quick" else [("plain 1", "1"), ("plain ptr", "vb_gp"), ("nullptr", "nullptr"), ("plain 1.5", "1.5")]
    for wname, T, a in ops:
        is_ptr_tainted = wname == "tainted" and T in PTRLIKE
        volatile_or_hint = wname in ("tainted_volatile", "hint", "inthint")
        # ---- binary operators
        for op in BINOPS:
            for rname, r in rights:
                rr = a if r is None else r
                r_vol_hint = (r is None and volatile_or_hint) or "tainted_volatile" in rname or rname in ("hint", "inthint")
                desc = "%s<%s> %s %s" % (wname, T, op, rname)
                if op in CMPS and (volatile_or_hint or r_vol_hint) and wname not in ("tainted_opaque",):
                    ws.append(expr_w("%s %s %s" % (a, op, rr), desc + " [must be a hint]", want_hint=True, group="cmp-hint"))
                else:
                    allow = is_ptr_tainted and op in ("==", "!=") and rname == "nullptr"
                    ws.append(expr_w("%s %s %s" % (a, op, rr), desc, allow_bool=allow, group="binary"))
            for lname, l in lefts_plain:
                desc = "%s %s %s<%s>" % (lname, op, wname, T)
                if op in CMPS and volatile_or_hint:
                    ws.append(expr_w("%s %s %s" % (l, op, a), desc + " [must be a hint]", want_hint=True, group="cmp-hint"))
                else:
                    ws.append(expr_w("%s %s %s" % (l, op, a), desc, group="binary-rev"))
        # ---- comma: value is the right operand
        ws.append(expr_w("1, %s" % a, "1 , %s<%s>" % (wname, T), group="comma"))
        # ---- unary
        for u in ["-", "~", "+"]:
            ws.append(expr_w("%s%s" % (u, a), "%s %s<%s>" % (u, wname, T), group="unary"))
        ws.append(expr_w("!%s" % a, "! %s<%s>" % (wname, T), allow_bool=is_ptr_tainted, group="unary"))
        ws.append(expr_w("*%s" % a, "* %s<%s>" % (wname, T), group="unary"))
        ws.append(expr_w("&%s" % a, "& %s<%s>" % (wname, T), group="unary"))
        for u in ["++", "--"]:
            ws.append(expr_w("%s%s" % (u, a), "%s %s<%s>" % (u, wname, T), group="unary"))
            ws.append(expr_w("%s%s" % (a, u), "%s<%s> %s" % (wname, T, u), group="unary"))
        ws.append(expr_w("%s[1]" % a, "%s<%s>[1]" % (wname, T), group="index"))
        ws.append(expr_w("%s[%s]" % (a, lv("tainted", "int")), "%s<%s>[tainted<int>]" % (wname, T), group="index"))
        ws.append(expr_w("%s.operator->()" % a, "%s<%s> ->" % (wname, T), group="unary"))
        ws.append(expr_w("true ? %s : %s" % (a, a), "c ? w : w  %s<%s>" % (wname, T), group="ternary"))
        # ---- casts to plain types
        P = plain_of(T)
        casts = ["int", "long", "bool", "double", "void*", "unsigned long", P]
        if tier != "quick":
            casts += ["char", "int*", "unsigned char", "float"]
        for C_ in dict.fromkeys(casts):
            for form in (["(%s)%s", "static_cast<%s>(%s)"] if tier == "quick" else ["(%s)%s", "static_cast<%s>(%s)", "reinterpret_cast<%s>(%s)", "%s(%s)" if " " not in C_ and "*" not in C_ else None]):
                if form is None:
                    continue
                tn = C_ if "(*)" not in C_ else "vb_fn_t"
                pre = ""
                e = form % (tn, a)
                if "(*)" in C_:
                    continue
                allow = is_ptr_tainted and C_ == "bool" and not form.startswith("reinterpret")
                ws.append(expr_w(e, "cast %s<%s> to %s via %s" % (wname, T, C_, form.split("%")[0] or "C-style"), allow_bool=allow, group="cast"))
        # ---- statement / conversion contexts: must be rejected (null test of a tainted pointer exempt)
        ctx = []
        targets = list(dict.fromkeys([P, "int", "long", "bool", "double", "void*"] + ([] if tier == "quick" else ["unsigned char", "char*", "float", "unsigned long"])))
        for tgt in targets:
            if "(*)" in tgt:
                decl = "int (*x)(int) = %s; (void)x;" % a
                asg = "int (*x)(int) = nullptr; x = %s; (void)x;" % a
                ret = None
                arg = "vb_takes_fn(%s);" % a
            elif "[" in tgt:
                continue
            else:
                decl = "%s x = %s; (void)x;" % (tgt, a)
                asg = "%s x{}; x = %s; (void)x;" % (tgt, a)
                ret = "auto f = [&]() -> %s { return %s; }; (void)f;" % (tgt, a)
                arg = "vb_take<%s>(%s);" % (tgt, a)
            exempt = is_ptr_tainted and tgt == "bool"
            for nm, code in (("init", decl), ("assign", asg), ("return", ret), ("argument", arg)):
                if code is None:
                    continue
                ctx.append(("%s %s from %s<%s>" % (nm, tgt, wname, T), code, exempt))
        conds = [("if", "if (%s) {}" % a), ("while", "while (%s) { break; }" % a), ("for", "for (; %s;) { break; }" % a), ("?:", "int q = %s ? 1 : 2; (void)q;" % a),
                 ("&&", "bool q = %s && true; (void)q;" % a if False else None), ("static_assert-free bool ctx !!", "bool q = !!%s; (void)q;" % a)]
        for nm, code in conds:
            if code is None:
                continue
            ctx.append(("%s (%s<%s>)" % (nm, wname, T), code, is_ptr_tainted))
        ctx.append(("switch (%s<%s>)" % (wname, T), "switch (%s) { default: break; }" % a, False))
        ctx.append(("plain_array[%s<%s>]" % (wname, T), "int q = vb_gparr[0][%s]; (void)q;" % a if False else "auto q = vb_gp[%s]; (void)q;" % a, False))
        ctx.append(("new int[%s<%s>]" % (wname, T), "auto q = new int[%s]; (void)q;" % a, False))
        for d, code, exempt in ctx:
            if exempt:
                ws.append(W("must_accept", code, d + " [null test of a tainted pointer: allowed]", group="context-exempt"))
            else:
                ws.append(W("must_reject", code, d, group="context"))
    # ---- hints cannot be verified
    ws.append(W("must_reject", "auto v = vb_lv<tainted_boolean_hint>().copy_and_verify([](bool b) { return b; }); (void)v;", "tainted_boolean_hint.copy_and_verify", group="hint"))
    ws.append(W("must_reject", "auto v = vb_lv<tainted_int_hint>().copy_and_verify([](int b) { return b; }); (void)v;", "tainted_int_hint.copy_and_verify", group="hint"))
    ws.append(W("must_reject", "bool b = vb_lv<tainted_boolean_hint>(); (void)b;", "bool from tainted_boolean_hint", group="hint"))
    ws.append(W("must_reject", "int b = vb_lv<tainted_int_hint>(); (void)b;", "int from tainted_int_hint", group="hint"))
    ws.append(W("must_reject", "if (vb_lv<tainted_boolean_hint>()) {}", "if (tainted_boolean_hint)", group="hint"))
    # ---- private storage
    for wname in WRAPPERS:
        ws.append(W("must_reject", "auto& v = %s.data; (void)v;" % lv(wname, "int"), "%s<int>.data" % wname, group="private"))
    ws.append(W("must_reject", "auto v = %s.get_raw_value(); (void)v;" % lv("tainted", "int"), "tainted<int>.get_raw_value()", group="private"))
    ws.append(W("must_reject", "auto v = %s.get_raw_value(); (void)v;" % lv("tainted_volatile", "int"), "tainted_volatile<int>.get_raw_value()", group="private"))
    ws.append(W("must_reject", "auto v = %s.get_raw_sandbox_value(); (void)v;" % lv("tainted_volatile", "int"), "tainted_volatile<int>.get_raw_sandbox_value()", group="private"))
    ws.append(W("must_reject", "auto& v = %s.get_raw_value_ref(); (void)v;" % lv("tainted", "int"), "tainted<int>.get_raw_value_ref()", group="private"))
    ws.append(W("must_reject", "auto& v = %s.get_sandbox_value_ref(); (void)v;" % lv("tainted_volatile", "int"), "tainted_volatile<int>.get_sandbox_value_ref()", group="private"))
    ws.append(W("must_reject", "auto v = tainted<int*, M<@N>>::internal_factory(vb_gp); (void)v;", "tainted<int*>::internal_factory(raw)", group="private"))
    ws.append(W("must_reject", "auto v = %s.UNSAFE_unverified(); (void)v;" % lv("tainted_opaque", "int"), "tainted_opaque<int>.UNSAFE_unverified()", group="private"))
    ws.append(W("must_reject", "tainted_volatile<int, M<@N>> v; (void)v;", "constructing a tainted_volatile", group="private"))
    # ---- the same operator forms on CONST operands (a const view of sandbox memory, fields behind a tainted<const S*>): an overload
    # that exists only for const objects must wrap its result like its non-const twin
    for wname in ("tainted", "tainted_volatile"):
        for T in [t for t in types if "[" not in t and t != "VbW"]:
            ca = "vb_lv<const %s<%s, M<@N>>>()" % (wname, T)
            vol = wname == "tainted_volatile"
            for op in BINOPS:
                for rname, r in (("plain 1", "1"), ("tainted<int>", lv("tainted", "int"))):
                    desc = "const %s<%s> %s %s" % (wname, T, op, rname)
                    if op in CMPS and vol:
                        ws.append(expr_w("%s %s %s" % (ca, op, r), desc + " [must be a hint]", want_hint=True, group="cmp-hint"))
                    else:
                        ws.append(expr_w("%s %s %s" % (ca, op, r), desc, group="binary"))
            for u in ["-", "~", "+", "*", "&"]:
                ws.append(expr_w("%s%s" % (u, ca), "%s const %s<%s>" % (u, wname, T), group="unary"))
            ws.append(expr_w("!%s" % ca, "! const %s<%s>" % (wname, T), allow_bool=(wname == "tainted" and T in PTRLIKE), group="unary"))
            ws.append(expr_w("%s[1]" % ca, "const %s<%s>[1]" % (wname, T), group="index"))
    # ---- callback arguments originate in the sandbox: a callback can only be registered if it receives them wrapped
    reg = "auto c = vb_lv<SB<@N>>().register_callback(vb_cb@N); (void)c;"
    cbd = lambda ret, params: "static %s vb_cb@N(%s);" % (ret, params)
    TI_ = "tainted<int, M<@N>>"
    for params, what in (("SB<@N>&, int a", "a plain int"), ("SB<@N>&, int* a", "a plain pointer"), ("SB<@N>&, " + TI_ + " a, const char* b", "a plain pointer next to a tainted parameter"),
                         ("SB<@N>&, " + TI_ + " a, long b", "a plain long next to a tainted parameter"), ("SB<@N>&, VbW a", "a plain struct"), ("SB<@N>&, int (*a)(int)", "a plain function pointer"),
                         ("SB<@N>&, double a", "a plain double"), ("SB<@N>&, int** a", "a plain pointer to pointer")):
        ws.append(W("must_reject", reg, "callback argument delivered as %s" % what, pre=cbd(TI_, params), group="context"))
    ws.append(W("must_accept", reg, "control: callback with tainted parameters registers", pre=cbd(TI_, "SB<@N>&, " + TI_ + " a, tainted<int*, M<@N>> b"), group="control"))
    ws.append(W("must_reject", "tainted_volatile<int, M<@N>> v = %s; (void)v;" % lv("tainted_volatile", "int"), "copying a tainted_volatile", group="private"))
    # ---- controls: the named unwrappers work and give the plain type
    for T in ["int", "long", "bool", "double", "int*", "VbW"]:
        P = T
        for wname in ("tainted", "tainted_volatile"):
            a = lv(wname, T)
            if wname == "tainted_volatile" and T == "VbW":
                code = "auto v = %s.UNSAFE_unverified(); static_assert(std::is_same_v<decltype(v), %s>, \"%s\"); (void)v;" % (a, P, witness.TYPE_MARK)
                ws.append(W("must_accept", code, "control: %s<%s>.UNSAFE_unverified() is %s" % (wname, T, P), group="control"))
                continue
            code = "auto v = %s.UNSAFE_unverified(); static_assert(std::is_same_v<decltype(v), %s>, \"%s\"); (void)v;" % (a, P, witness.TYPE_MARK)
            ws.append(W("must_accept", code, "control: %s<%s>.UNSAFE_unverified() is %s" % (wname, T, P), group="control"))
            if T not in ("int*", "VbW"):
                ws.append(W("must_accept", "auto v = %s.unverified_safe_because(\"r\"); static_assert(std::is_same_v<decltype(v), %s>, \"%s\"); (void)v;" % (a, P, witness.TYPE_MARK),
                            "control: %s<%s>.unverified_safe_because" % (wname, T), group="control"))
                ws.append(W("must_accept", "auto v = %s.copy_and_verify([](%s x) { return x; }); static_assert(std::is_same_v<decltype(v), %s>, \"%s\"); (void)v;" % (a, P, P, witness.TYPE_MARK),
                            "control: %s<%s>.copy_and_verify" % (wname, T), group="control"))
            if T == "int*":
                ws.append(W("must_accept", "auto v = %s.unverified_safe_pointer_because(1, \"r\"); static_assert(std::is_same_v<decltype(v), int*>, \"%s\"); (void)v;" % (a, witness.TYPE_MARK),
                            "control: %s<int*>.unverified_safe_pointer_because" % wname, group="control"))
                ws.append(W("must_reject", "auto v = %s.unverified_safe_because(\"r\"); (void)v;" % a, "%s<int*>.unverified_safe_because must be refused (pointers need the range form)" % wname, group="control"))
    ws.append(W("must_accept", "bool v = vb_lv<tainted_boolean_hint>().unverified_safe_because(\"r\"); (void)v;", "control: hint.unverified_safe_because", group="control"))
    ws.append(W("must_accept", "%s.set_zero();" % lv("tainted_opaque", "int"), "control: tainted_opaque.set_zero()", group="control"))
    ws.append(W("must_accept", "auto v = %s + 1; static_assert(std::is_same_v<decltype(v), tainted<int, M<@N>>>, \"%s\"); (void)v;" % (lv("tainted", "int"), witness.TYPE_MARK), "control: tainted<int>+1 is tainted<int>", group="control"))
    ws.append(W("must_accept", "auto v = (%s == 1); static_assert(std::is_same_v<decltype(v), tainted<bool, M<@N>>>, \"%s\"); (void)v;" % (lv("tainted", "int"), witness.TYPE_MARK), "control: tainted<int>==1 is tainted<bool>", group="control"))
    ws.append(W("must_accept", "auto v = (%s == 1); static_assert(std::is_same_v<decltype(v), tainted_boolean_hint>, \"%s\"); (void)v;" % (lv("tainted_volatile", "int"), witness.TYPE_MARK), "control: tainted_volatile<int>==1 is a hint", group="control"))
    ws.append(W("must_accept", "auto& v = *%s; static_assert(std::is_same_v<decltype(v), tainted_volatile<int, M<@N>>&>, \"%s\"); (void)v;" % (lv("tainted", "int*"), witness.TYPE_MARK), "control: *tainted<int*> is tainted_volatile<int>&", group="control"))
    ws.append(W("must_accept", "auto v = &%s; static_assert(std::is_same_v<decltype(v), tainted<int*, M<@N>>>, \"%s\"); (void)v;" % (lv("tainted_volatile", "int"), witness.TYPE_MARK), "control: &tainted_volatile<int> is tainted<int*>", group="control"))
    return ws


ALLOW_PLAIN_RETURN = {
    "UNSAFE_unverified": "named unwrapper", "UNSAFE_sandboxed": "named unwrapper", "unverified_safe_because": "named unwrapper",
    "unverified_safe_pointer_because": "named unwrapper", "copy_and_verify": "result is the verifier's", "copy_and_verify_range": "result is the verifier's",
    "copy_and_verify_string": "result is the verifier's", "copy_and_verify_address": "result is the verifier's", "copy_and_verify_buffer_address": "result is the verifier's",
    "INTERNAL_unverified_safe": "explicit named call used by the cast friends and stdlib functions (not an implicit loss of taint)",
    "is_unregistered": "owner state, not sandbox data", "operator bool": "null test of a tainted pointer (static failure otherwise)",
    "operator!": "null test of a tainted pointer / hint negation", "operator==": "bool only for tainted<pointer> == nullptr", "operator!=": "bool only for tainted<pointer> != nullptr",
    "operator<": "see ==", "operator<=": "see ==", "operator>": "see ==", "operator>=": "see ==",
    "get_sandbox_impl": "sandbox object, not data", "find_example_pointer_or_null": "private", "set_zero": "void",
}
WRAPPER_CLASSES = ["rlbox::tainted_base_impl", "rlbox::tainted", "rlbox::tainted_volatile", "rlbox::tainted_opaque", "rlbox::sandbox_callback", "rlbox::app_pointer",
                   "rlbox::tainted_boolean_hint", "rlbox::tainted_int_hint"]


def is_wrapped_type(t):
    c = (t or {}).get("c") or ""
    c = re.sub(r"\b(const|volatile)\b", "", c).strip()
    c = c.rstrip("&* ").strip()
    if c in ("void", ""):
        return True
    return c.startswith(("rlbox::tainted", "rlbox::sandbox_callback", "rlbox::app_pointer", "rlbox::tainted_boolean_hint", "rlbox::tainted_int_hint"))


def surface(rep, dbs):
    n = 0
    for db in dbs:
        for r in db.records:
            if r["dep"] or r["n"] not in WRAPPER_CLASSES:
                continue
            inst = "%s | %s<%s>" % (db.label, r["n"], ", ".join(r.get("targs") or [])[:80])
            struct_spec = r["n"] in ("rlbox::tainted", "rlbox::tainted_volatile") and not any(fl["n"] == "data" for fl in r["fields"]) and r["fields"]
            for fl in r["fields"]:
                n += 1
                if struct_spec:
                    if fl["access"] == 0 and not is_wrapped_type(fl["t"]):
                        rep.violation("R-C01-surface", r["n"] + " [public field]", "struct specialisation exposes the plain-typed public field '%s' (%s)" % (fl["n"], (fl["t"] or {}).get("c")), fl.get("loc") or r["loc"], inst)
                elif fl["access"] != 2:
                    rep.violation("R-C01-surface", r["n"] + " [storage]", "storage field '%s' is not private" % fl["n"], fl.get("loc") or r["loc"], inst)
            for m in r["methods"]:
                if m.get("kind") == "conv" and m.get("access") != 2:
                    n += 1
                    if ((m.get("convto") or {}).get("c") or "") != "bool":
                        rep.violation("R-C01-surface", r["n"] + " [conversion]", "public conversion function to %s" % (m.get("convto") or {}).get("c"), m.get("loc") or r["loc"], inst)
            for fr in r.get("friends", []):
                n += 1
                nm = (fr.get("n") or "")
                if not nm.startswith("rlbox::"):
                    rep.violation("R-C01-surface", r["n"] + " [friend]", "unexpected friend %s" % nm, r["loc"], inst)
        for f in db.functions:
            if f["dep"] or "rid" not in f or f.get("access") != 0:
                continue
            cls = f["n"].rsplit("::", 1)[0]
            if cls not in WRAPPER_CLASSES or f.get("kind") in ("ctor", "dtor"):
                continue
            n += 1
            rt = f.get("ret") or {}
            if is_wrapped_type(rt) or rt.get("dep"):
                continue
            sn = f["sn"]
            if f.get("kind") == "conv":
                sn = "operator bool" if (f.get("convto") or {}).get("c") == "bool" else "operator " + ((f.get("convto") or {}).get("c") or "?")
            if sn not in ALLOW_PLAIN_RETURN:
                rep.violation("R-C01-surface", f["n"] + " [plain result]", "public member %s returns the plain type %s and is not one of the named unwrappers" % (f["n"], rt.get("c")), f["loc"], "%s | %s" % (db.label, f["full"][:120]))
    return n


def run(rep, tier):
    rep.rule("W-C01-expr", "for every expression form of the grammar (wrapper kind x type x every overloadable binary operator with wrapped/plain/nullptr operands on either side, unary operators, [], ->, comma, ?:, "
             "C-style/static/reinterpret casts to plain types): IF the expression compiles, its type (after removing references, cv and pointers) is a wrapper, a hint or void; the only plain result allowed is bool "
             "from the null tests of a tainted pointer; comparisons involving a tainted_volatile or hint operand yield exactly tainted_boolean_hint. The compiler is the judge (evaluated context, one sandbox type per witness)")
    rep.rule("W-C01-ctx", "initialising / assigning / passing / returning a wrapper where a plain type is expected and using it as if/while/for/?:/switch condition, array subscript or array-new size does not compile "
             "(except the null test of a tainted pointer, pinned by must-accept controls); hints refuse copy_and_verify; raw storage and internal factories are inaccessible")
    rep.rule("W-C01-ctl", "must-accept controls: each named unwrapper compiles and has the documented plain result type (keeps the corpus from passing vacuously)")
    rep.rule("R-C01-surface", "over all instantiated wrapper classes and struct specialisations: storage fields private, public fields of struct specialisations wrapper-typed, public conversion functions only to bool, "
             "friends only inside rlbox, and the set of public members with a non-wrapper result type is contained in the allow-list of named unwrappers")
    ws = build_corpus(tier)
    for i, w in enumerate(ws):
        w.n = 1000 + i
    res, unattr = witness.judge(ws, "clang++")
    rep.require(len(unattr) == 0, "compiler errors that could not be attributed to a witness: %s" % unattr[:3])
    stats = {}
    for w in ws:
        verdict, msgs = res[w.n]
        if witness.alarm(w, verdict):
            v2, m2 = witness.confirm(w)
            verdict, msgs = v2, m2
        key = (w.group, verdict.split(":")[0])
        stats[key] = stats.get(key, 0) + 1
        rule = {"context": "W-C01-ctx", "context-exempt": "W-C01-ctl", "control": "W-C01-ctl", "hint": "W-C01-ctx", "private": "W-C01-ctx"}.get(w.group, "W-C01-expr")
        if witness.alarm(w, verdict):
            what = {"must_reject": "a program that must not compile is accepted", "must_accept": "a documented use no longer compiles (%s)" % (msgs[:1] or [""])[0][:160]}.get(w.kind)
            if what is None:
                what = "the expression compiles and yields a PLAIN (unwrapped) value" if PLAIN_MARK in verdict else "a comparison involving sandbox-resident data yields something other than tainted_boolean_hint"
            rep.violation(rule, "form: " + generic_site(w.desc), "%s: `%s`" % (what, w.body.replace("@N", "N")[:200]), "W:%d" % w.n, w.desc, {"witness": w.body})
        else:
            rep.ok(rule, "form: " + generic_site(w.desc), "%s -> %s" % (w.desc, verdict), w.desc, nontrivial=(verdict != "reject" or w.kind == "must_reject"))
    rep.extra["witnesses"] = len(ws)
    rep.extra["verdicts"] = {"%s/%s" % k: v for k, v in sorted(stats.items())}
    rep.extra["exhaustive"] = True
    rep.extra["grammar"] = "operands: {tainted,tainted_volatile,tainted_opaque}x%d types + sandbox_callback, app_pointer, both hints; 18 binary ops x right operands x reversed plain-left; 11 unary/postfix forms; 2 index forms; ->; ?:; comma; casts; statement contexts" % len(TYPES_QUICK if tier == "quick" else TYPES_FULL)
    if tier == "thorough":
        # second judge: g++ must agree on every alarm-relevant verdict
        res2, un2 = witness.judge(ws, "g++")
        dis = 0
        for w in ws:
            v2 = res2[w.n][0]
            if witness.alarm(w, v2):
                v3, m3 = witness.confirm(w, "g++")
                if witness.alarm(w, v3):
                    dis += 1
                    rep.violation("W-C01-expr", "form: " + generic_site(w.desc) + " [g++]", "g++ 12 judges this witness differently: %s" % v3, "W:%d" % w.n, w.desc)
        rep.extra["gxx_disagreements"] = dis
    # ---- surface
    dbs = facts.load_core(["model32"] if tier == "quick" else ["model32", "noop"], ["PTR", "INVOKE"], thorough=(tier == "thorough"))
    for db in dbs:
        rep.units.append(db.label)
    ns = surface(rep, dbs)
    rep.ok("R-C01-surface", "wrapper classes", "%d surface facts inspected" % ns, "all")
    rep.require(ns >= 1000, "only %d surface facts" % ns)
    rep.require(len(ws) >= 1500, "corpus too small (%d)" % len(ws))
    acc = sum(v for (g, vd), v in stats.items() if vd == "accept")
    rep.require(acc >= 200, "only %d witnesses compile: the corpus would pass vacuously" % acc)
    rep.assumptions += ["programs outside the grammar (user code that specialises RLBox templates or befriends itself) are not covered",
                        "RLBOX_NO_COMPILE_CHECKS is never defined (it disables the mechanism this property is about)"]


def generic_site(desc):
    """site key without the operand type: 'tainted<int> + plain 1' -> 'tainted<T> + plain 1'"""
    return re.sub(r"<[^<>]*(\([^)]*\))?[^<>]*>", "<T>", desc)[:100]
