"""C03 - every tainted data pointer is null or points into its own sandbox (inductive producer discipline)."""
from .. import facts, q
from ..engine import Engine, Inconclusive, C, fmt, subterms, lin
from ..common import site
from .ops import strip_casts
from . import ops as ops_
from .c09 import root_of

THIS_OBJ = ("deref", ("this",))
SB = "rlbox::rlbox_sandbox"


def tainted_ptr_read(t):
    """value of an existing tainted pointer object: rd(X.data) / rd(X.field) of app memory"""
    t = strip_casts(t)
    return isinstance(t, tuple) and t[:1] == ("rd",) and isinstance(t[1], tuple) and t[1][:1] == ("fld",)


def justify(v, conds, p, depth=0):
    """returns the idiom that justifies pointer value v at this point of the path, or None"""
    v0 = strip_casts(v)
    if v0 == C(0):
        return "null"
    if isinstance(v0, tuple) and v0[:1] in (("call",), ("ucall",)):
        nm = q.short(v0[1] if v0[0] == "call" else v0[2])
        if nm.startswith("impl_get_unsandboxed_pointer"):
            return "backend translation"
        if nm == "impl_grant_access":
            return "backend grant"
    if any(strip_casts(x) == v0 for x in q.in_sandbox_facts(conds)):
        return "membership check"
    for a, b in q.same_sandbox_facts(conds):
        if strip_casts(b) == v0:
            if not q.nonnull(conds, a):
                return None
            if depth < 3 and (tainted_ptr_read(a) or justify(a, conds, p, depth + 1)):
                return "same-sandbox as a non-null justified base"
    if isinstance(v0, tuple) and v0[:1] == ("addr",):
        r = root_of(v0[1])
        if isinstance(r, tuple) and r[:1] == ("deref",):
            return "address inside a tainted_volatile object"
        if isinstance(r, tuple) and r[:1] == ("pobj",):
            return "address of a tainted_volatile parameter object"
    if v0 == ("this",):
        return "address of the tainted_volatile object itself"
    if tainted_ptr_read(v0):
        return "copy of an existing tainted pointer"
    if isinstance(v0, tuple) and v0[:1] == ("p",):
        return None
    if isinstance(v0, tuple) and v0[:1] == ("lin",):
        # pointer arithmetic: must have been covered by a same-sandbox fact (handled above)
        return None
    return None


def run(rep, tier):
    rep.rule("R-C03-producers", "every site that creates or overwrites an object-pointer value inside a tainted wrapper (internal_factory / tag constructor / storage writes / field writes of tainted structs), in every "
             "instantiation and on every path, is justified by one idiom: null; backend translation (get_unsandboxed_pointer*) or grant; dominating abort check is_pointer_in_sandbox_memory(value); dominating abort checks "
             "base != null and is_in_same_sandbox(base, value) with a justified base; address of (part of) a tainted_volatile object; copy/cast of an existing tainted pointer")
    rep.rule("R-C03-deref", "the operators that manufacture a tainted_volatile lvalue from a raw pointer value (operator*, operator->, pointer operator[]) are dominated by an abort check pointer != null "
             "(fields and elements of the lvalue are not at offset 0, so a null base yields small non-null addresses)")
    rep.rule("R-C03-malloc", "malloc_in_sandbox checks the start (membership) and the last element (same sandbox as the start) before the wrapper is created; the byte size cannot overflow (uint64 = sizeof * uint32)")
    backends = ["model32"] if tier == "quick" else ["model32", "model32gi", "noop"]
    dbs = facts.load_core(backends, ["PTR", "INVOKE", "ARR"], thorough=(tier == "thorough"))
    n = {"producers": 0, "fns": 0, "deref": 0, "malloc": 0}
    rep.rule("R-C03-example", "every context-free (example-based) pointer translation inside the wrappers and struct specialisations is given the address of the sandbox-memory object involved: a pointer decoded relative "
             "to an application-side address (a local copy, the destination object) is a non-null tainted pointer outside the sandbox (shared analysis with C04's R-C04-example)")
    from . import c04 as _c04
    rep.rule("R-C03-index", "the tainted_volatile lvalue that pointer operator[] (and the pointer that operator+ / operator-) hands out designates exactly the address that was checked to lie in the same sandbox as the "
             "non-null base (shared analysis with C05's R-C05-check / R-C05-stride)")
    from ..report import RuleView as _RV
    for db in dbs:
        for f in db.functions:
            if f["dep"] or "body" not in f or not f["n"].startswith(ops_.BASE) or (ops_.class_T(f) or {}).get("k") != "ptr":
                continue
            if (f.get("oo") in ("+", "-") and len(f["params"]) == 1) or (f.get("oo") == "[]" and f.get("constm")):
                try:
                    ops_.check_pointer_arith(_RV(rep, {"R-C05-check": "R-C03-index", "R-C05-stride": "R-C03-index"}), db, f, "%s | %s" % (db.label, f["full"][:150]), db.label)
                except Inconclusive as ex:
                    rep.inconclusive("R-C03-index", site(f), str(ex), "%s | %s" % (db.label, f["full"][:150]))
    rep.rule("R-C03-derived", "the compound and stepping forms of tainted pointer arithmetic (+=, -=, ++, --) are the checked binary operator applied once and assigned back: a form that updates the raw pointer "
             "in place moves a tainted pointer anywhere without the same-sandbox check (shared analysis with C05's R-C05-derived)")
    for db in dbs:
        for f in db.functions:
            if f["dep"] or "body" not in f or not f["n"].startswith(ops_.BASE) or (ops_.class_T(f) or {}).get("k") != "ptr":
                continue
            if f.get("oo") in ("+=", "-=", "++", "--"):
                try:
                    ops_.check_derived(_RV(rep, {"R-C05-derived": "R-C03-derived"}), "C05", db, f, "%s | %s" % (db.label, f["full"][:150]))
                except Inconclusive as ex:
                    rep.inconclusive("R-C03-derived", site(f), str(ex), "%s | %s" % (db.label, f["full"][:150]))
    rep.rule("R-C03-array", "a whole array of pointers is converted element by element with every destination element written (null to null, everything else through the backend translation): an element that is "
             "skipped keeps whatever the destination held - an uninitialised tainted pointer (shared analysis with C04's R-C04-route)")
    from ..report import RuleView
    for db in dbs:
        for f in db.functions:
            if not f["dep"] and "body" in f and f["n"] == "rlbox::detail::convert_type_non_class":
                try:
                    _c04.check_route(RuleView(rep, {"R-C04-route": "R-C03-array"}), db, f, "%s | %s" % (db.label, f["full"][:150]))
                except Inconclusive as ex:
                    rep.inconclusive("R-C03-array", site(f), str(ex), "%s | %s" % (db.label, f["full"][:150]))
    for db in dbs:
        rep.units.append(db.label)
        for f in db.functions:
            if not f["dep"] and "body" in f and _c04.is_example_user(f):
                try:
                    _c04.check_example(rep, db, f, "%s | %s" % (db.label, f["full"][:150]), rule="R-C03-example")
                except Inconclusive as ex:
                    rep.inconclusive("R-C03-example", site(f), str(ex), "%s | %s" % (db.label, f["full"][:150]))
    for db in dbs:
        for f in db.functions:
            if f["dep"] or "body" not in f or not f["n"].startswith("rlbox::"):
                continue
            if f.get("lambda") or f["sn"].startswith("impl_"):
                continue
            inst = "%s | %s" % (db.label, f["full"][:150])
            # private members of the wrappers are reachable only from members / friends, every one of which is analysed as a root with
            # the private member inlined (who may name them is C01's R-C01-surface); they are not entry points of their own
            private_primitive = f.get("access") == 2 and f["n"].rsplit("::", 1)[0] in ("rlbox::tainted", "rlbox::tainted_volatile", "rlbox::tainted_base_impl")
            if private_primitive:
                continue
            if f["n"].startswith("rlbox::detail::"):
                continue
            try:
                ps = q.paths(db, f)
            except Inconclusive:
                continue
            n["fns"] += 1
            cls = f["n"].rsplit("::", 1)[0]
            bad = None
            cnt = 0
            for p in ps:
                objtype = {}
                for e in p.events:
                    if e.kind in ("CTOR", "DECL") and isinstance((e.extra or {}).get("t"), dict):
                        objtype[e.a] = (e.extra["t"].get("rn") or "")
                for i, e in enumerate(p.events):
                    if e.kind != "STORE" or (e.extra or {}).get("rec"):
                        continue
                    ty = (e.extra or {}).get("t") or {}
                    if ty.get("k") != "ptr":
                        continue
                    r0 = root_of(e.a)
                    if r0 == THIS_OBJ:
                        if cls != "rlbox::tainted":
                            continue
                    elif isinstance(r0, tuple) and r0[:1] in (("tmp",), ("var",)):
                        if not objtype.get(r0, "").startswith("rlbox::tainted") or objtype.get(r0, "").startswith("rlbox::tainted_volatile") or objtype.get(r0, "").startswith("rlbox::tainted_opaque"):
                            continue
                    else:
                        continue
                    if e.a[0] != "fld":
                        continue
                    cnt += 1
                    conds = q.conds_before(p, i)
                    j = justify(e.b, conds, p)
                    if j is None:
                        # the public checked entry points take an application pointer: justified by the membership check (C02)
                        bad = (e, conds)
                        break
                if bad:
                    break
            n["producers"] += cnt
            if bad:
                e, conds = bad
                st = q.stack_site(e, skip_detail=True) or site(f)
                stf = next((g for g in db.fn_by_name.get(st, []) if not g["dep"]), None)
                if st.endswith("::tainted") or (stf is not None and stf.get("access") == 2):
                    st = site(f)
                rep.violation("R-C03-producers", st, "a tainted object pointer is created with the value %s, which is not null, not a backend translation, not membership-checked, not same-sandbox as a non-null justified base, "
                              "not an address inside a tainted_volatile and not a copy of a tainted pointer" % fmt(e.b)[:140], e.loc, inst, {"entry": site(f)})
            elif cnt:
                rep.ok("R-C03-producers", site(f), "%d producer sites justified" % cnt, inst)
            # ---- dereferencing operators
            if f["n"] in ("rlbox::tainted_base_impl::operator*", "rlbox::tainted_base_impl::operator->") and f.get("constm") and len(f["params"]) == 0:
                n["deref"] += 1
                okd = True
                for p in ps:
                    r = p.retval
                    ptr = r[1] if isinstance(r, tuple) and r[:1] == ("deref",) else r
                    conds = q.conds_before(p, len(p.events))
                    if not q.nonnull(conds, strip_casts(ptr)):
                        okd = False
                if okd:
                    rep.ok("R-C03-deref", site(f), "null-checked", inst)
                else:
                    rep.violation("R-C03-deref", site(f) + " [null base]", "dereferencing a null tainted pointer yields a tainted_volatile lvalue at address 0; &p->field / &p->arr[i] then give small non-null addresses outside the sandbox", f["loc"], inst)
            if f["n"] == SB + "::malloc_in_sandbox" and len(f["params"]) == 1:
                n["malloc"] += 1
                check_malloc(rep, db, f, inst, ps)
    rep.require(n["fns"] >= 800, "only %d functions analysed (floor 800)" % n["fns"])
    rep.require(n["producers"] >= 300, "only %d producer sites (floor 300)" % n["producers"])
    rep.require(n["deref"] >= 20, "only %d dereference operators (floor 20)" % n["deref"])
    rep.require(n["malloc"] >= 10, "only %d malloc instantiations (floor 10)" % n["malloc"])
    rep.extra["instances"] = n
    rep.assumptions += ["backend contract: impl_get_unsandboxed_pointer* returns an address inside the instance's region; impl_is_in_same_sandbox / impl_is_pointer_in_sandbox_memory are exact",
                        "chains of operations are covered by induction over producers (every existing tainted pointer already satisfies the invariant), not by enumeration of 2^32 representations"]


def check_malloc(rep, db, f, inst, ps):
    cnt = ("p", f["params"][0]["n"])
    T = (f.get("targt") or [None])[0] or {}
    sz = T.get("sz")
    saw = False
    for p in ps:
        r = p.retval
        data = p.state.mem.get(("fld", r, "data")) if isinstance(r, tuple) else None
        if data is None and isinstance(r, tuple):
            src = p.state.mem.get(("copyof", r))
            data = p.state.mem.get(("fld", src, "data")) if src is not None else None
        if data is None or strip_casts(data) == C(0):
            continue
        saw = True
        conds = q.conds_before(p, len(p.events))
        v = strip_casts(data)
        if not any(strip_casts(x) == v for x in q.in_sandbox_facts(conds)):
            rep.violation("R-C03-malloc", site(f), "the allocation's start is not membership-checked before the wrapper is created", f["loc"], inst)
            return
        end_ok = False
        for a, b in q.same_sandbox_facts(conds):
            if strip_casts(a) == v:
                d = lin("-", b, a)
                # (count-1)*sizeof(T)
                if sz is not None and d == lin("-", ("lin", 0, ((cnt, sz),)), C(sz)):
                    end_ok = True
        if not end_ok:
            rep.violation("R-C03-malloc", site(f), "the last element (start + (count-1)*sizeof(T)) is not checked to lie in the same sandbox as the start", f["loc"], inst)
            return
        if not q.nonnull(conds, cnt) and ("cmp", "!=", cnt, C(0)) not in conds:
            rep.violation("R-C03-malloc", site(f), "count == 0 is not rejected", f["loc"], inst)
            return
        be = [e for e in p.events if e.kind == "CALL" and q.short(e.a) == "impl_malloc_in_sandbox"]
        if len(be) != 1 or (sz is not None and strip_casts(be[0].b[0]) != ("lin", 0, ((cnt, sz),)) and not (sz == 1 and strip_casts(be[0].b[0]) == cnt)):
            rep.violation("R-C03-malloc", site(f), "the backend is not asked for count*sizeof(T) bytes (asked for %s)" % (fmt(be[0].b[0]) if be else None), f["loc"], inst)
            return
    if saw:
        rep.ok("R-C03-malloc", site(f), "start membership-checked, last element same-sandbox, size = count*sizeof(T)", inst)
