"""C15 - app-pointer tokens are non-zero, bounded, unique and resolve to their pointer."""
from .. import facts, q
from ..engine import Engine, Inconclusive, C, fmt, cmp_, lin, subterms
from ..common import site
from . import owners
from .ops import strip_casts

THIS_OBJ = owners.THIS_OBJ
MAP = "rlbox::app_pointer_map"
AP = "rlbox::app_pointer"
SB = "rlbox::rlbox_sandbox"


def argvals(e):
    return (e.extra or {}).get("argvals", e.b)


def run(rep, tier):
    rep.rule("R-C15-reserve", "the token table's constructor inserts token 0 and the scan cursor starts at 1")
    rep.rule("R-C15-fresh", "every returning path of get_unused_index returns the loop variable i of an iteration on which `pointer_map.find(i) == end()` was assumed for the same i "
             "(unique, hence non-zero because 0 is reserved); the first scan is bounded by i <= max; every store to the cursor is i+1 of the returned i; there is no returning fall-through")
    rep.rule("R-C15-table", "remove_app_ptr and lookup_index check existence (abort) before use and use the element found; get_app_pointer_idx stores the pointer under the token it returns")
    rep.rule("R-C15-sandbox", "get_app_pointer passes total_memory-1 as the limit, aborts unless the fabricated address is inside the sandbox, and builds the owner from the same token; lookup_app_ptr resolves the sandbox representation of its argument")
    rep.rule("R-C15-move", "app_pointer move_obj/move constructor transfer and reset every field; move assignment releases the current token before overwriting")
    rep.rule("R-C15-release", "destructor/unregister release the token iff one is held (idx != 0) and reset all fields")
    rep.rule("R-C15-unique", "app_pointer is not copyable and its registering constructor is private")
    backends = ["model32"] if tier == "quick" else ["model32", "model32gi", "noop", "dylib"]
    dbs = facts.load_core(backends, ["INVOKE"], thorough=(tier == "thorough"))
    n = {}

    def cnt(k):
        n[k] = n.get(k, 0) + 1

    for db in dbs:
        rep.units.append(db.label)
        for r in db.records:
            if r["dep"]:
                continue
            inst = "%s | %s" % (db.label, r["n_full"][:120])
            if r["n"] == AP:
                cnt("unique")
                ms = r["methods"]
                if [m for m in ms if (m.get("copy") or m.get("copyassign")) and not m.get("deleted")] or not r.get("has_copy_ctor_deleted", False):
                    rep.violation("R-C15-unique", AP, "app_pointer is copyable (two owners of one token)", r["loc"], inst)
                elif any(m["access"] != 2 for m in ms if m.get("kind") == "ctor" and len(m.get("params", [])) == 3):
                    rep.violation("R-C15-unique", AP, "the registering constructor is not private", r["loc"], inst)
                else:
                    rep.ok("R-C15-unique", AP, "copy deleted; registering constructor private", inst)
        for f in db.functions:
            if f["dep"] or "body" not in f:
                continue
            inst = "%s | %s" % (db.label, f["full"][:150])
            nm = f["n"]
            try:
                if nm == MAP + "::app_pointer_map":
                    check_reserve(rep, db, f, inst); cnt("reserve")
                elif nm == MAP + "::get_unused_index":
                    check_fresh(rep, db, f, inst); cnt("fresh")
                elif nm == MAP + "::remove_app_ptr":
                    check_find_use(rep, db, f, inst, "erase"); cnt("table")
                elif nm == MAP + "::lookup_index":
                    check_find_use(rep, db, f, inst, "ret"); cnt("table")
                elif nm == MAP + "::get_app_pointer_idx":
                    check_store_idx(rep, db, f, inst); cnt("table")
                elif nm == SB + "::get_app_pointer":
                    check_get_app_pointer(rep, db, f, inst); cnt("sandbox")
                elif nm == SB + "::lookup_app_ptr":
                    check_lookup_app_ptr(rep, db, f, inst); cnt("sandbox")
                elif owners.is_transfer_member(f, AP):
                    owners.check_move_obj(rep, "C15", db, f, inst); cnt("move")
                elif nm == AP + "::operator=":
                    owners.check_move_assign(rep, "C15", db, f, inst, release_pred, "idx"); cnt("assign")
                elif nm in (AP + "::~app_pointer", AP + "::unregister"):
                    rec = owners.record_of(db, f)
                    owners.check_release(rep, "C15", db, f, inst, release_pred_strict, "idx", owners.field_names(rec, db)); cnt("release")
            except Inconclusive as ex:
                rep.inconclusive("R-C15", site(f), str(ex), inst)
    floors = {"reserve": 1, "fresh": 1, "table": 3, "sandbox": 2, "move": 1, "assign": 1, "release": 2, "unique": 1}
    for k, v in floors.items():
        rep.require(n.get(k, 0) >= v, "only %d instances for rule group '%s' (floor %d)" % (n.get(k, 0), k, v))
    rep.extra["instances"] = n
    rep.assumptions += ["the complete state space of the token table is a model-checking question and is not enumerated; the scan's second bound relies on the cursor invariant checked in the syntactic form above",
                        "std::map::find/erase/operator[] behave as specified"]


def release_pred(e):
    return e.kind == "CALL" and q.short(e.a) in ("remove_app_ptr", "erase") and (q.short(e.a) == "erase" or True)


def release_pred_strict(e):
    # remove_app_ptr is inlined: the release is the erase on the token table reached through this->map
    return e.kind == "CALL" and q.short(e.a) == "erase" and e.c is not None and "pointer_map" in fmt(e.c)


def check_reserve(rep, db, f, inst):
    ps = Engine(db).run(f)
    ok_res = ok_cnt = False
    for p in ps:
        for i, e in enumerate(p.events):
            if e.kind == "CALL" and q.short(e.a) in ("operator[]", "insert", "emplace", "insert_or_assign", "try_emplace") and e.c is not None and "pointer_map" in fmt(e.c) and argvals(e) and argvals(e)[0] == C(0):
                ok_res = True
            if e.kind == "STORE" and e.a == ("fld", THIS_OBJ, "counter") and e.b == C(1):
                ok_cnt = True
            # the table constructed from an initializer list that contains an entry with key 0 (member initialiser `map{ {0, nullptr} }`)
            if e.kind == "STORE" and isinstance(e.a, tuple) and e.a[:2] == ("fld", THIS_OBJ) and "pointer_map" in fmt(e.a) and isinstance(e.b, tuple) and e.b[:1] == ("tmp",):
                for e2 in p.events[:i]:
                    if e2.kind == "CALL" and q.short(e2.a) == "map" and e2.c == ("addr", e.b) and argvals(e2) and isinstance(argvals(e2)[0], tuple) and argvals(e2)[0][:1] == ("tmp",):
                        il = argvals(e2)[0]
                        for k_, v_ in p.state.mem.items():
                            if isinstance(k_, tuple) and k_[:2] == ("idx", il) and isinstance(v_, tuple) and p.state.mem.get(("fld", v_, "first")) == C(0):
                                ok_res = True
    if ok_res and ok_cnt:
        rep.ok("R-C15-reserve", site(f), "token 0 reserved; cursor starts at 1", inst)
    else:
        rep.violation("R-C15-reserve", site(f), "token 0 %s; cursor %s" % ("reserved" if ok_res else "is NOT reserved in the constructor", "starts at 1" if ok_cnt else "does NOT start at 1"), f["loc"], inst)


def check_fresh(rep, db, f, inst):
    ps = Engine(db).run(f)
    if not ps:
        rep.violation("R-C15-fresh", site(f), "no returning path", f["loc"], inst)
        return
    maxp = ("p", f["params"][0]["n"])
    n_first = 0
    for p in ps:
        r = strip_casts(p.retval)
        evs = p.events
        conds = q.resolve(q.conds_before(p, len(evs)))
        is_end = lambda x: isinstance(x, tuple) and x[:1] == ("ucall",) and q.short(x[2]) in ("end", "cend")

        def absent(c, fr):
            # `find(token) == end()` in either spelling, as asserted on this path (directly, or left over from the exit condition of a
            # "skip while in use" loop: `!(i <= max && find(i) != end())` together with `i <= max`)
            if not (isinstance(c, tuple) and c[:1] == ("cmp",) and len(c) == 4 and c[3] == C(0) and isinstance(c[2], tuple) and c[2][:1] == ("ucall",)):
                return False
            nm, args = q.short(c[2][2]), c[2][3]
            if fr not in args or not any(is_end(x) for x in args):
                return False
            return (c[1] == "==" and nm == "operator!=") or (c[1] == "!=" and nm == "operator==")
        # find(...) on pointer_map with argument value == r, and its result compared equal to end()
        fresh = False
        for i, e in enumerate(evs):
            if e.kind == "CALL" and q.short(e.a) == "find" and e.c is not None and "pointer_map" in fmt(e.c) and argvals(e) and strip_casts(argvals(e)[0]) == r:
                fr = (e.extra or {}).get("ret")
                if any(absent(c, fr) for c in conds):
                    fresh = True
        # equivalent idiom: pointer_map.count(i) == 0 / !pointer_map.contains(i)
        for i, e in enumerate(evs):
            if e.kind == "CALL" and q.short(e.a) in ("count", "contains") and e.c is not None and "pointer_map" in fmt(e.c) and argvals(e) and strip_casts(argvals(e)[0]) == r:
                cr = (e.extra or {}).get("ret")
                if any(e2.kind == "ASSUME" and e2.a == ("cmp", "==", cr, C(0)) for e2 in evs[i:]):
                    fresh = True
        if not fresh:
            if not (isinstance(r, tuple) and r[:1] in (("havoc",), ("rd",))):
                rep.violation("R-C15-fresh", site(f) + " [fall-through]", "a path returns %s which is not a scanned candidate (fall-through must abort)" % fmt(p.retval), f["loc"], inst)
                return
            rep.violation("R-C15-fresh", site(f), "the returned token is not control-dependent on `pointer_map.find(token) == end()` for the same token (a token in use could be handed out twice)", f["loc"], inst)
            return
        ub = q.upper_bounds(conds, r)
        bounded_by_max = any(op == "<=" and strip_casts(u) == maxp for op, u in ub)
        bounded_by_cursor = any(op == "<" and u == ("rd", ("fld", THIS_OBJ, "counter")) for op, u in ub)
        if bounded_by_max:
            n_first += 1
        elif not bounded_by_cursor:
            rep.violation("R-C15-fresh", site(f) + " [bound]", "the returned token is bounded neither by the limit (i <= max) nor by the cursor (i < counter)", f["loc"], inst)
            return
        for e in evs:
            if e.kind == "STORE" and e.a == ("fld", THIS_OBJ, "counter") and e.b != lin("+", r, C(1)):
                rep.violation("R-C15-fresh", site(f), "cursor updated to %s, expected returned token + 1" % fmt(e.b), f["loc"], inst)
                return
    if n_first == 0:
        rep.violation("R-C15-fresh", site(f) + " [bound]", "no scan is bounded by the limit passed in", f["loc"], inst)
        return
    rep.ok("R-C15-fresh", site(f), "all %d returning paths return a fresh, bounded candidate and advance the cursor past it" % len(ps), inst)


def check_find_use(rep, db, f, inst, use):
    """remove_app_ptr / lookup_index: every search of the table is for the given token, the token's presence is established by an abort
    check, and the element erased / returned is the one stored under the token.  Accepted spellings of the search: find (result != end),
    lower_bound (result != end and result->first == token), count/contains (!= 0), erase by key (number removed != 0)."""
    ps = Engine(db).run(f)
    idx = ("p", f["params"][0]["n"])
    on_map = lambda e: e.c is not None and "pointer_map" in fmt(e.c)
    for p in ps:
        evs = p.events
        searches = []
        for i, e in enumerate(evs):
            if e.kind != "CALL" or not on_map(e):
                continue
            sh = q.short(e.a)
            if sh in ("find", "lower_bound", "count", "contains", "at", "operator[]"):
                searches.append(i)
            elif sh == "erase" and len(argvals(e)) == 1 and strip_casts(argvals(e)[0]) == idx:
                searches.append(i)
            elif sh in ("upper_bound", "equal_range", "extract"):
                rep.violation("R-C15-table", site(f), "the table is searched with %s (not one of the spellings this rule can decide)" % sh, f["loc"], inst)
                return
        if not searches or any(not argvals(evs[i]) or strip_casts(argvals(evs[i])[0]) != idx for i in searches):
            rep.violation("R-C15-table", site(f), "the table is not searched for the given token", f["loc"], inst)
            return
        aborts = [(i, e) for i, e in enumerate(evs) if e.kind == "ASSUME" and (e.extra or {}).get("abort_check")]

        def same_as(fr):
            def same(x):
                # the search result, also through copies and the iterator -> const_iterator converting constructor
                for _ in range(6):
                    if x == fr:
                        return True
                    if not (isinstance(x, tuple) and x[:1] in (("var",), ("tmp",))):
                        return False
                    c_ = p.state.mem.get(("copyof", x))
                    if c_ is None:
                        conv = next((e_ for e_ in evs if e_.kind == "CALL" and (e_.extra or {}).get("ret") == x and "iterator" in q.short(e_.a).lower() and len(e_.b) == 1), None)
                        c_ = conv.b[0] if conv is not None else None
                    if c_ is None:
                        return False
                    x = c_
                return False
            return same

        def nonzero(t, after):
            # abort check that the count t is not zero
            forms = (("cmp", "!=", t, C(0)), ("cmp", "==", t, C(1)), ("cmp", "<", C(0), t), ("cmp", "<=", C(1), t))
            return [i for i, e in aborts if i > after and q.same_observer_calls(e.a) in [q.same_observer_calls(x) for x in forms]]

        found = None      # ("iter", same, established_at) | ("key", established_at)
        erased_by_key = None
        for i in searches:
            e = evs[i]
            sh = q.short(e.a)
            fr = (e.extra or {}).get("ret")
            if sh in ("find", "lower_bound"):
                same = same_as(fr)
                # the comparison with end() may be written either way round (`it != end` asserted, or `it == end` aborting)
                chk = [j for j, a in aborts if j > i and q.mentions(a.a, same) and
                       q.mentions(a.a, lambda x: isinstance(x, tuple) and x[:1] == ("ucall",) and q.short(x[2]) in ("operator!=", "operator=="))]
                if sh == "lower_bound":
                    keyeq = [j for j, a in aborts if j > i and a.a[:2] == ("cmp", "==") and q.mentions(a.a, same) and q.mentions(a.a, lambda x: x == idx) and
                             q.mentions(a.a, lambda x: isinstance(x, tuple) and x[:1] == ("fld",) and x[2] == "first")]
                    chk = [max(chk[0], keyeq[0])] if chk and keyeq else []
                if chk and found is None:
                    found = ("iter", same, chk[0])
            elif sh in ("count", "contains"):
                nz = nonzero(fr, i)
                if nz and found is None:
                    found = ("key", nz[0])
            elif sh == "erase":
                nz = nonzero(fr, i)
                if nz:
                    erased_by_key = i
        if found is None and erased_by_key is None:
            rep.violation("R-C15-table", site(f), "existence of the token is not checked (abort) before it is used", f["loc"], inst)
            return
        if use == "erase":
            allerase = [i for i, e in enumerate(evs) if e.kind == "CALL" and q.short(e.a) == "erase" and on_map(e)]
            good = []
            for i in allerase:
                a = argvals(evs[i])
                if i == erased_by_key:
                    good.append(i)
                elif found and found[0] == "iter" and i > found[2] and any(q.mentions(x, found[1]) for x in evs[i].b):
                    good.append(i)
                elif found and found[0] == "key" and i > found[1] and len(a) == 1 and strip_casts(a[0]) == idx:
                    good.append(i)
            if len(allerase) != 1 or good != allerase:
                rep.violation("R-C15-table", site(f), "the element found is not the element erased (after the existence check)", f["loc"], inst)
                return
        else:
            rv = p.retval
            ok = False
            if found and found[0] == "iter":
                ok = rv is not None and q.mentions(rv, found[1]) and q.mentions(rv, lambda x: isinstance(x, tuple) and x[:1] == ("fld",) and x[2] == "second")
            elif found and found[0] == "key":
                cells = [(evs[i].extra or {}).get("ret") for i in searches if i > found[1] and q.short(evs[i].a) in ("at", "operator[]")]
                ok = rv is not None and any(rv == ("rd", c_) or rv == c_ for c_ in cells)
            if not ok:
                rep.violation("R-C15-table", site(f), "lookup does not return the pointer stored under the token found (returned %s)" % fmt(rv), f["loc"], inst)
                return
    rep.ok("R-C15-table", site(f), "search for the token, existence abort check, then %s of the element found" % use, inst)


def check_store_idx(rep, db, f, inst):
    ps = Engine(db, no_inline={MAP + "::get_unused_index"}).run(f)
    ptr = ("p", f["params"][0]["n"])
    lim = ("p", f["params"][1]["n"])
    for p in ps:
        evs = p.events
        gu = [e for e in evs if e.kind == "CALL" and q.short(e.a) == "get_unused_index"]
        if len(gu) != 1 or gu[0].b != [lim]:
            rep.violation("R-C15-table", site(f), "get_unused_index is not called once with the given limit", f["loc"], inst)
            return
        tok = (gu[0].extra or {}).get("ret")
        sub = [e for e in evs if e.kind == "CALL" and q.short(e.a) == "operator[]" and e.c is not None and "pointer_map" in fmt(e.c)]
        okstore = False
        for s in sub:
            cell = (s.extra or {}).get("ret")
            if strip_casts(argvals(s)[0]) == tok and any(e.kind == "STORE" and e.a == cell and e.b == ptr for e in evs):
                okstore = True
        # equivalent spellings that store (key, value) in one call
        val = lambda x: p.state.mem.get(x, x) if isinstance(x, tuple) and x[:1] in (("var",), ("tmp",)) else x
        for s in evs:
            if s.kind == "CALL" and q.short(s.a) in ("insert_or_assign",) and s.c is not None and "pointer_map" in fmt(s.c) and len(argvals(s)) == 2:
                k_, v_ = [strip_casts(val(x)) for x in argvals(s)]
                if k_ == tok and v_ == ptr:
                    okstore = True
        if not okstore or strip_casts(p.retval) != tok:
            rep.violation("R-C15-table", site(f), "the pointer is not stored under the token that is returned", f["loc"], inst)
            return
    rep.ok("R-C15-table", site(f), "pointer stored under the returned token", inst)


def check_get_app_pointer(rep, db, f, inst):
    ps = Engine(db, no_inline={MAP + "::get_app_pointer_idx"}).run(f)
    ptr = ("p", f["params"][0]["n"])
    if not ps:
        rep.violation("R-C15-sandbox", site(f), "no returning path", f["loc"], inst)
        return
    for p in ps:
        evs = p.events
        gi = [e for e in evs if e.kind == "CALL" and q.short(e.a) == "get_app_pointer_idx"]
        if len(gi) != 1:
            rep.violation("R-C15-sandbox", site(f), "token allocation not called exactly once", f["loc"], inst)
            return
        a = gi[0].b
        lim = strip_casts(a[1]) if len(a) > 1 else None
        want = lin("-", ("call", None, (), None), C(1))
        lim_ok = isinstance(lim, tuple) and lim[:1] == ("lin",) and lim[1] == -1 and len(lim[2]) == 1 and lim[2][0][1] == 1 and q.is_call(lim[2][0][0], "impl_get_total_memory")
        if a[0] != ptr or not lim_ok or not (gi[0].c is not None and "app_ptr_map" in fmt(gi[0].c)):
            rep.violation("R-C15-sandbox", site(f), "token allocated with limit %s (expected total_memory - 1) for pointer %s" % (fmt(a[1]) if len(a) > 1 else "?", fmt(a[0])), f["loc"], inst)
            return
        tok = (gi[0].extra or {}).get("ret")
        conds = q.conds_before(p, len(evs))
        fab = [x for x in q.in_sandbox_facts(conds)]
        owner = p.retval
        o_idx = p.state.mem.get(("fld", owner, "idx"))
        o_un = p.state.mem.get(("fld", owner, "idx_unsandboxed"))
        o_map = p.state.mem.get(("fld", owner, "map"))
        if o_idx != tok:
            rep.violation("R-C15-sandbox", site(f), "the owner is built from %s, not from the token allocated" % fmt(o_idx), f["loc"], inst)
            return
        if not (q.mentions(o_un, lambda x: x == tok) and strip_casts(o_un) in [strip_casts(x) for x in fab]):
            rep.violation("R-C15-sandbox", site(f), "the fabricated address %s is not covered by an abort check is_pointer_in_sandbox_memory" % fmt(o_un), f["loc"], inst)
            return
        if o_map is None or "app_ptr_map" not in fmt(o_map):
            rep.violation("R-C15-sandbox", site(f), "the owner does not refer to this sandbox's token table", f["loc"], inst)
            return
    rep.ok("R-C15-sandbox", site(f), "limit total_memory-1, fabricated address checked, owner built from the same token", inst)


def check_lookup_app_ptr(rep, db, f, inst):
    ps = Engine(db, no_inline={MAP + "::lookup_index"}).run(f)
    arg = ("pobj", f["params"][0]["n"])
    for p in ps:
        li = [e for e in p.events if e.kind == "CALL" and q.short(e.a) == "lookup_index"]
        if len(li) != 1:
            rep.violation("R-C15-sandbox", site(f), "lookup_index not called exactly once", f["loc"], inst)
            return
        v = li[0].b[0]
        okv = v == C(0) or q.mentions(v, lambda x: x == ("rd", ("fld", arg, "data")) or (isinstance(x, tuple) and x[:1] == ("rd",) and isinstance(x[1], tuple) and x[1][:1] == ("fld",) and x[1][2] == "data"))
        if not okv or p.retval is None or not q.mentions(p.retval, lambda x: x == (li[0].extra or {}).get("ret")):
            rep.violation("R-C15-sandbox", site(f), "lookup does not resolve the sandbox representation of its argument", f["loc"], inst)
            return
    rep.ok("R-C15-sandbox", site(f), "resolves the sandbox representation of the tainted pointer", inst)
