"""C12 - a callback call runs exactly the registered function with faithful arguments (dispatch agreement)."""
import re
from .. import facts, q
from ..engine import Engine, Inconclusive, C, fmt, subterms, root_param_names
from ..common import site
from . import ops
from .ops import strip_casts
from .c11 import roots_of, obj_roots, _tgt

SB = "rlbox::rlbox_sandbox"
THIS_OBJ = ("deref", ("this",))


def argvals(e):
    return (e.extra or {}).get("argvals", e.b)


def fld_of(t, name):
    """term is a read of some object's field `name`"""
    t = strip_casts(t)
    return isinstance(t, tuple) and t[:1] == ("rd",) and isinstance(t[1], tuple) and t[1][:1] == ("fld",) and t[1][2] == name


def run(rep, tier):
    rep.rule("R-C12-interceptor", "the interceptor fetches (sandbox,key) from impl_get_executed_callback_sandbox_and_key, calls `key` exactly once with that sandbox first and argument i converted from interceptor "
             "parameter i (pointers via that sandbox instance), and converts a non-void result back from the callee's return value")
    rep.rule("R-C12-slots", "in each bundled backend (both TLS configurations): impl_register_callback stores key and interceptor at one index I and returns trampoline<I>; trampoline<N> records N and calls callbacks[N] of the "
             "per-thread sandbox with all parameters; impl_get_executed_callback_sandbox_and_key returns (per-thread sandbox, callback_unique_keys[last_callback_invoked]); impl_unregister_callback clears both arrays at one index; "
             "impl_invoke_with_func_ptr installs `this` as the per-thread sandbox before the call and a scope_exit restores the previous value after it")
    rep.rule("R-C12-types", "register_callback instantiates the interceptor with the unwrapped signature of the function it was given")
    backends = ["model32", "noop", "dylib", "noop_tls", "dylib_tls"] if tier == "quick" else ["model32", "model32gi", "noop", "dylib", "noop_tls", "dylib_tls", "noop_trans", "model32_trans"]
    dbs = facts.load_core(backends, ["INVOKE"], thorough=(tier == "thorough"))
    # generated callback family (tools/gen_sigs.py): 0..8 tainted / tainted_opaque parameters of every kind, every return kind
    dbs += facts.load_sigs(["model32", "noop"] if tier == "quick" else ["model32", "model32gi", "noop", "dylib"], thorough=(tier == "thorough"))
    n = {}

    def cnt(k):
        n[k] = n.get(k, 0) + 1

    for db in dbs:
        rep.units.append(db.label)
        bundled = not db.label.startswith("model32")
        for f in db.functions:
            if f["dep"] or "body" not in f:
                continue
            inst = "%s | %s" % (db.label, f["full"][:170])
            try:
                if f["n"] == SB + "::sandbox_callback_interceptor":
                    check_interceptor(rep, db, f, inst); cnt("interceptor")
                elif f["n"] == SB + "::register_callback" and len(f["params"]) == 1 and f["params"][0]["n"] == "func_ptr":
                    check_types(rep, db, f, inst); cnt("types")
                elif bundled and f["sn"] == "impl_register_callback":
                    check_register_slots(rep, db, f, inst); cnt("reg")
                elif bundled and f["sn"] == "callback_trampoline":
                    check_trampoline(rep, db, f, inst); cnt("tramp")
                elif bundled and f["sn"] == "impl_get_executed_callback_sandbox_and_key":
                    check_get_executed(rep, db, f, inst); cnt("getexec")
                elif bundled and f["sn"] == "impl_unregister_callback":
                    check_unregister_slots(rep, db, f, inst); cnt("unreg")
                    check_unregister_scan(rep, db, f, inst)
                elif bundled and f["sn"] == "impl_invoke_with_func_ptr":
                    check_ctx(rep, db, f, inst); cnt("ctx")
            except Inconclusive as ex:
                rep.inconclusive("R-C12", site(f), str(ex), inst)
    # the per-thread context (executing sandbox, last slot) must be ONE object per thread for the whole program
    from .c18 import check_per_tu_state
    from ..report import RuleView
    for db in dbs:
        check_per_tu_state(RuleView(rep, {"R-C18-statics": "R-C12-slots"}), db)
    floors = {"interceptor": 30, "types": 30, "reg": 8, "tramp": 8, "getexec": 4, "unreg": 4, "ctx": 20}
    for k, v in floors.items():
        rep.require(n.get(k, 0) >= v, "only %d instances for rule group '%s' (floor %d)" % (n.get(k, 0), k, v))
    rep.extra["instances"] = n
    rep.assumptions += ["dispatch after arbitrary register/unregister histories and nesting depth is a state-space property; this check decides the index/identity agreement of each step",
                        "argument/result value faithfulness per kind is C04/C06/C08"]


def check_interceptor(rep, db, f, inst):
    rule = "R-C12-interceptor"
    ps = q.paths(db, f)
    names = root_param_names(f)
    void_ret = (f.get("ret") or {}).get("k") == "void"
    if not ps:
        rep.violation(rule, site(f), "no returning path", f["loc"], inst)
        return
    for p in ps:
        ctx = [e for e in p.events if e.kind == "CALL" and q.short(e.a) == "impl_get_executed_callback_sandbox_and_key"]
        ic = [(i, e) for i, e in enumerate(p.events) if e.kind == "CALL" and e.a == "<indirect>"]
        if len(ctx) != 1 or len(ic) != 1 or ic[0][1].loop != 0:
            rep.violation(rule, site(f), "expected one context fetch and exactly one call of the application callback per path (found %d/%d)" % (len(ctx), len(ic)), f["loc"], inst)
            return
        pair = (ctx[0].extra or {}).get("ret")
        i, call = ic[0]
        first = ("rd", ("fld", pair, "first"))
        second = ("rd", ("fld", pair, "second"))
        tgt = _tgt((call.extra or {}).get("target"))
        if tgt != second:
            rep.violation(rule, site(f), "the function called is %s, not the key reported by the backend for the executing callback" % fmt(tgt), f["loc"], inst)
            return
        args = call.b
        if not args or strip_casts(args[0]) != ("deref", first):
            rep.violation(rule, site(f), "the callback does not receive the executing sandbox as its first argument (got %s)" % (fmt(args[0]) if args else "nothing"), f["loc"], inst)
            return
        rest = args[1:]
        if len(rest) != len(names):
            rep.violation(rule, site(f), "%d converted arguments for %d interceptor parameters" % (len(rest), len(names)), f["loc"], inst)
            return
        for k, (a, pn) in enumerate(zip(rest, names)):
            rs = obj_roots(p, a) | roots_of(a)
            v = p.state.mem.get(("fld", a, "data")) if isinstance(a, tuple) else None
            uca = ops.unchecked_conversion(p, v) if v is not None else ops.unchecked_conversion(p, a)
            if uca:
                rep.violation(rule, site(f), "callback argument %d is converted by a plain C++ conversion %s in %s, outside the checked conversion routine" % (k + 1, fmt(uca[0])[:70], ", ".join(uca[1])), f["loc"], inst)
                return
            src = p.state.mem.get(("copyof", a)) if isinstance(a, tuple) else None
            if v is None and src is not None:
                v = p.state.mem.get(("fld", src, "data"))
            if v == C(0) and not rs:
                conds = q.conds_before(p, i)
                if any(roots_of(c) == {pn} for c in conds):
                    continue
            if rs != {pn}:
                rep.violation(rule, site(f), "callback argument %d is derived from %s instead of interceptor parameter %d" % (k, sorted(rs), k), f["loc"], inst)
                return
            if v is not None:
                x = strip_casts(v)
                if isinstance(x, tuple) and x and x[0] in ("call", "ucall") and q.short(x[1] if x[0] == "call" else x[2]).startswith("impl_get_"):
                    nm = q.short(x[1] if x[0] == "call" else x[2])
                    if nm != "impl_get_unsandboxed_pointer" or x[-1] != first:
                        rep.violation(rule, site(f), "pointer argument %d is translated with %s on %s, not relative to the executing sandbox" % (k, nm, fmt(x[-1])), f["loc"], inst)
                        return
        if not void_ret:
            r = (call.extra or {}).get("ret")
            rv = p.retval
            ok = rv is not None and (q.mentions(rv, lambda x: x == r) or (isinstance(rv, tuple) and rv[:1] in (("tmp",), ("var",)) and (r in obj_terms(p, rv))) or rv == C(0))
            if rv == C(0):
                conds = q.conds_before(p, len(p.events))
                ok = any(q.mentions(c, lambda x: x == r) for c in conds)
            if not ok:
                rep.violation(rule, site(f), "the value returned to the sandbox (%s) is not converted from the callback's result" % fmt(rv)[:120], f["loc"], inst)
                return
            uc = ops.unchecked_conversion(p, rv) if rv is not None else None
            if uc:
                rep.violation(rule, site(f), "the callback's result reaches the sandbox through a plain C++ conversion %s performed in %s, outside the checked conversion routine: a result that is not representable "
                              "in the sandbox ABI is returned changed instead of aborting" % (fmt(uc[0])[:70], ", ".join(uc[1])), f["loc"], inst)
                return
            x = strip_casts(rv) if rv is not None else None
            if isinstance(x, tuple) and x and x[0] in ("call", "ucall") and q.short(x[1] if x[0] == "call" else x[2]).startswith("impl_get_"):
                nm = q.short(x[1] if x[0] == "call" else x[2])
                if nm != "impl_get_sandboxed_pointer" or x[-1] != first:
                    rep.violation(rule, site(f), "pointer result is translated with %s on %s, not relative to the executing sandbox" % (nm, fmt(x[-1])), f["loc"], inst)
                    return
    rep.ok(rule, site(f), "context fetched once; key called once with the executing sandbox and %d one-to-one converted arguments" % len(names), inst)


def obj_terms(p, obj):
    out = set()
    for k, v in p.state.mem.items():
        if isinstance(k, tuple) and k and k[0] in ("fld", "idx"):
            b = k
            while b[0] in ("fld", "idx"):
                b = b[1]
            if b == obj:
                for x in subterms(v):
                    out.add(x)
    return out


def unwrap_type(c):
    """'rlbox::tainted<long, SBX>' / 'rlbox::tainted_opaque<..>' -> 'long'"""
    m = re.match(r"^rlbox::tainted(?:_opaque)?<(.*)>$", c)
    if not m:
        return c
    inner = m.group(1)
    depth = 0
    for i, ch in enumerate(inner):
        if ch in "<(":
            depth += 1
        elif ch in ">)":
            depth -= 1
        elif ch == "," and depth == 0:
            return inner[:i].strip()
    return inner


def check_types(rep, db, f, inst):
    rule = "R-C12-types"
    tt = f.get("targt") or []
    if len(tt) < 2:
        rep.inconclusive(rule, site(f), "template arguments unavailable", inst)
        return
    ret = unwrap_type((tt[1] or {}).get("c", ""))
    args = []
    if len(tt) > 2 and isinstance(tt[2], dict) and "pack" in tt[2]:
        args = [unwrap_type((a or {}).get("c", "")) for a in tt[2]["pack"]]
    want = [ret] + args
    ps = q.paths(db, f)
    for p in ps:
        be = [e for e in p.events if e.kind == "CALL" and q.short(e.a) == "impl_register_callback"]
        if len(be) != 1:
            rep.violation(rule, site(f), "backend registration not called exactly once", f["loc"], inst)
            return
        ic = strip_casts(be[0].b[1])
        if not (isinstance(ic, tuple) and ic[:1] == ("fn",)):
            rep.violation(rule, site(f), "the interceptor registered is not a function", f["loc"], inst)
            return
        fn = db.fn_by_id.get(ic[2])
        if fn is None or fn["n"] != SB + "::sandbox_callback_interceptor":
            rep.violation(rule, site(f), "the function registered as interceptor is %s" % ic[1], f["loc"], inst)
            return
        got = []
        for a in fn.get("targt") or []:
            if isinstance(a, dict) and "pack" in a:
                got += [(x or {}).get("c") for x in a["pack"]]
            else:
                got.append((a or {}).get("c"))
        norm = lambda s: (s or "").replace(" ", "")
        if [norm(x) for x in got] != [norm(x) for x in want]:
            rep.violation(rule, site(f), "interceptor instantiated for signature %s but the registered function has unwrapped signature %s" % (got, want), f["loc"], inst)
            return
    rep.ok(rule, site(f), "interceptor instantiated with the unwrapped signature %s" % want, inst)


def slot_of_fn(db, t):
    t = strip_casts(t)
    if isinstance(t, tuple) and t[:1] == ("addr",) and isinstance(t[1], tuple) and t[1][:1] == ("fn",):
        t = t[1]
    if isinstance(t, tuple) and t[:1] == ("fn",):
        fn = db.fn_by_id.get(t[2])
        if fn and fn["sn"] == "callback_trampoline":
            a = (fn.get("targt") or [None])[0]
            if isinstance(a, dict) and "int" in a:
                return int(a["int"])
    return None


HOLE = ("hole",)


class SlotLayout:
    """Where a backend keeps, for slot i, the registered key and the entry point - discovered from what impl_register_callback(key,
    callback) stores, not assumed: two parallel arrays (`keys[i]`, `fns[i]`), an array of structs (`slots[i].key`, `slots[i].fn`), ...
    A cell is an lvalue pattern over the backend object (THIS_OBJ in the sample) with a hole at the index."""

    def __init__(self):
        self.pat = {}

    @staticmethod
    def _abstract(lv):
        """replace the (single) index position of an element lvalue by HOLE; None when there is none"""
        if not isinstance(lv, tuple):
            return None
        if lv[:1] == ("idx",) and SlotLayout._rooted(lv[1]):
            return ("idx", lv[1], HOLE), lv[2]
        if lv[:1] == ("elem",) and SlotLayout._rooted(lv[2]):
            # the generic element of a loop over the table: an (unnamed) index of its own
            return ("idx", lv[2], HOLE), ("elemidx", lv[1])
        if lv[:1] == ("fld",):
            r = SlotLayout._abstract(lv[1])
            if r is not None:
                return ("fld", r[0], lv[2]), r[1]
        return None

    @staticmethod
    def _rooted(lv):
        while isinstance(lv, tuple) and lv[:1] in (("fld",), ("idx",)):
            lv = lv[1]
        return lv == THIS_OBJ

    def learn(self, role, lv):
        r = self._abstract(lv)
        if r is not None:
            self.pat.setdefault(role, r[0])
        return r

    def index_of(self, role, lv):
        """index term if lv is the `role` cell of this backend object, else None"""
        r = self._abstract(lv) if isinstance(lv, tuple) else None
        if r is not None and self.pat.get(role) == r[0]:
            return r[1]
        return None

    def cell(self, role, idx, base=THIS_OBJ):
        def sub(t):
            if t == HOLE:
                return idx
            if t == THIS_OBJ:
                return base
            if isinstance(t, tuple) and t[:1] == ("idx",) and t[2] == HOLE and isinstance(idx, tuple) and idx[:1] == ("elemidx",):
                return ("elem", idx[1], sub(t[1]))
            return tuple(sub(x) for x in t) if isinstance(t, tuple) else t
        return sub(self.pat[role]) if role in self.pat else None

    def table(self, role):
        """the lvalue of the array that holds the `role` cells"""
        t = self.pat.get(role)
        while isinstance(t, tuple) and t[:1] == ("fld",) and not (isinstance(t[1], tuple) and t[1] == THIS_OBJ):
            if isinstance(t[1], tuple) and t[1][:1] == ("idx",):
                return t[1][1]
            t = t[1]
        return t[1] if isinstance(t, tuple) and t[:1] == ("idx",) else t


_LAYOUTS = {}


def slot_layout(db, f):
    """layout of the backend class f belongs to (cached per record)"""
    key_ = (id(db), f.get("rid"))
    if key_ in _LAYOUTS:
        return _LAYOUTS[key_]
    lay = SlotLayout()
    for g in db.functions:
        if g.get("rid") == f.get("rid") and g.get("sn") == "impl_register_callback" and "body" in g and not g["dep"]:
            kp, cp = ("p", g["params"][0]["n"]), ("p", g["params"][1]["n"])
            try:
                for p in Engine(db).run(g):
                    for e in p.events:
                        if e.kind == "STORE" and e.b == kp:
                            lay.learn("key", e.a)
                        elif e.kind == "STORE" and e.b == cp:
                            lay.learn("fn", e.a)
            except Inconclusive:
                pass
            if "key" in lay.pat and "fn" in lay.pat:
                break
    _LAYOUTS[key_] = lay
    return lay


def idx_store(e, lay, role):
    """STORE into the `role` cell of slot i of this backend object -> i"""
    if e.kind == "STORE":
        return lay.index_of(role, e.a)
    return None


def check_register_slots(rep, db, f, inst):
    rule = "R-C12-slots"
    ps = Engine(db).run(f)
    key, cb = ("p", f["params"][0]["n"]), ("p", f["params"][1]["n"])
    lay = slot_layout(db, f)
    if "key" not in lay.pat or "fn" not in lay.pat:
        rep.violation(rule, site(f), "registration does not store the key and the entry point into per-slot cells of the backend object", f["loc"], inst)
        return
    nslots = 0
    for p in ps:
        slot = slot_of_fn(db, p.retval)
        tv = strip_casts(p.retval)
        if slot is None and isinstance(tv, tuple) and tv[:1] == ("rd",) and isinstance(tv[1], tuple) and tv[1][:1] == ("idx",):
            # the trampoline is taken from a constant table at a run-time index: fine when entry k of the table is trampoline<k> for
            # every k - then the returned trampoline's number IS that index
            gname = tv[1][1][1].split("::")[-1] if isinstance(tv[1][1], tuple) and tv[1][1][:1] == ("global",) else None
            tab = next((v_ for k_, v_ in p.state.mem.items() if isinstance(k_, tuple) and k_[:1] == ("statictable",) and k_[1][1].split(":")[-1] == gname), None)
            if tab and all(slot_of_fn(db, x) == k for k, x in enumerate(tab)):
                sym = tv[1][2]
                ks_ = [(idx_store(e, lay, "key"), e.b) for e in p.events if idx_store(e, lay, "key") is not None]
                cs_ = [(idx_store(e, lay, "fn"), e.b) for e in p.events if idx_store(e, lay, "fn") is not None]
                conds_ = q.conds_before(p, len(p.events))
                if ks_ == [(sym, key)] and cs_ == [(sym, cb)] and ("cmp", "==", ("rd", lay.cell("key", sym)), C(0)) in conds_ and \
                        (("cmp", "<", sym, C(len(tab))) in conds_ or (sym[:1] == ("c",) and 0 <= sym[1] < len(tab))) and \
                        any(e.kind == "CALL" and q.short(e.a) in q.EXCLUSIVE_GUARDS for e in p.events):
                    nslots += len(tab)
                    continue
                rep.violation(rule, site(f) + " [index agreement]", "the trampoline is read from a table at index %s but key/interceptor are stored at %s / %s (or the slot is not tested free / in range)" % (
                    fmt(sym), [(fmt(i), fmt(v)) for i, v in ks_], [(fmt(i), fmt(v)) for i, v in cs_]), f["loc"], inst)
                return
        ks = [(idx_store(e, lay, "key"), e.b) for e in p.events if idx_store(e, lay, "key") is not None]
        cs = [(idx_store(e, lay, "fn"), e.b) for e in p.events if idx_store(e, lay, "fn") is not None]
        if slot is None:
            if ks or cs:
                rep.violation(rule, site(f), "a path stores a registration but does not return its trampoline", f["loc"], inst)
                return
            continue
        nslots += 1
        conds = q.conds_before(p, len(p.events))
        # index terms known (by the path's conditions) to equal the trampoline's slot number: the slot may have been found by a
        # run-time search and matched against the compile-time index afterwards
        same = {C(slot)}
        for c in conds:
            if c[0] == "cmp" and c[1] == "==":
                if c[2] == C(slot):
                    same.add(c[3])
                elif c[3] == C(slot):
                    same.add(c[2])
        ks = [(C(slot) if i in same else i, v) for i, v in ks]
        cs = [(C(slot) if i in same else i, v) for i, v in cs]
        if ks != [(C(slot), key)] or cs != [(C(slot), cb)]:
            rep.violation(rule, site(f) + " [index agreement]", "trampoline<%d> is returned but key/interceptor are stored at %s / %s" % (slot, [(fmt(i), fmt(v)) for i, v in ks], [(fmt(i), fmt(v)) for i, v in cs]), f["loc"], inst)
            return
        if not any(("cmp", "==", ("rd", lay.cell("key", ix)), C(0)) in conds for ix in same):
            rep.violation(rule, site(f), "slot %d is taken without testing that it is free" % slot, f["loc"], inst)
            return
        if not any(e.kind == "CALL" and q.short(e.a) in q.EXCLUSIVE_GUARDS for e in p.events):
            rep.violation(rule, site(f), "slot table modified outside the unique guard", f["loc"], inst)
            return
    if nslots < 2:
        rep.violation(rule, site(f), "fewer than two slots can be allocated", f["loc"], inst)
        return
    rep.ok(rule, site(f) + " [index agreement]", "%d slots: key, interceptor and returned trampoline agree on the index" % nslots, inst)


def check_trampoline(rep, db, f, inst):
    rule = "R-C12-slots"
    ps = Engine(db).run(f)
    a = (f.get("targt") or [None])[0]
    N = int(a["int"]) if isinstance(a, dict) and "int" in a else None
    names = root_param_names(f)
    for p in ps:
        rec = [e for e in p.events if e.kind == "STORE" and e.a[0] == "fld" and e.a[2] == "last_callback_invoked"]
        ic = [e for e in p.events if e.kind == "CALL" and e.a == "<indirect>"]
        if len(rec) != 1 or rec[0].b != C(N):
            rep.violation(rule, site(f) + " [trampoline]", "trampoline<%s> records slot %s" % (N, [fmt(e.b) for e in rec]), f["loc"], inst)
            return
        td = rec[0].a[1]
        r0 = td
        while isinstance(r0, tuple) and r0 and r0[0] in ("fld", "idx"):
            r0 = r0[1]
        if isinstance(r0, tuple) and r0[:1] in (("var",), ("tmp",)):
            rep.violation(rule, site(f) + " [trampoline]", "trampoline<%s> records its slot in %s, a local copy of the per-thread record: the record read by impl_get_executed_callback_sandbox_and_key keeps the "
                          "previous slot and another callback's key is reported" % (N, fmt(td)), rec[0].loc, inst)
            return
        if len(ic) != 1:
            rep.violation(rule, site(f) + " [trampoline]", "interceptor not called exactly once", f["loc"], inst)
            return
        tgt = _tgt((ic[0].extra or {}).get("target"))
        lay = slot_layout(db, f)
        want = ("rd", lay.cell("fn", C(N), base=("deref", ("rd", ("fld", td, "sandbox")))))
        if tgt != want:
            rep.violation(rule, site(f) + " [trampoline]", "trampoline<%s> calls %s instead of the per-thread sandbox's callbacks[%s]" % (N, fmt(tgt), N), f["loc"], inst)
            return
        got = [x[1] if isinstance(x, tuple) and x[:1] == ("rd",) else x for x in ic[0].b]
        wantargs = [("var", "P", x) for x in names]
        got2 = [p.state.mem.get(("copyof", x), x) if isinstance(x, tuple) and x[:1] == ("tmp",) else x for x in got]
        norm = lambda x: ("P", x[1]) if isinstance(x, tuple) and x[:1] in (("p",), ("pobj",)) else (("P", x[2]) if isinstance(x, tuple) and x[:2] == ("var", "P") else x)
        if [norm(x) for x in got2] != [("P", x) for x in names]:
            rep.violation(rule, site(f) + " [trampoline]", "parameters not forwarded one-to-one in order", f["loc"], inst)
            return
    rep.ok(rule, site(f) + " [trampoline]", "records slot %s and calls callbacks[%s] with all parameters" % (N, N), inst)


def check_get_executed(rep, db, f, inst):
    rule = "R-C12-slots"
    ps = Engine(db).run(f)
    for p in ps:
        mp = [e for e in p.events if e.kind == "CALL" and q.short(e.a) in ("make_pair", "pair")]
        if not mp:
            # the pair built directly (`return {a, b}` / std::pair<A, B>(a, b)): the engine models that constructor natively
            from ..engine import Ev as Event
            mp = [Event("CALL", e.b, list(e.c or []), None, loc=e.loc, extra={"argvals": [p.state.mem.get(("fld", e.a, "first")), p.state.mem.get(("fld", e.a, "second"))]}) for e in p.events
                  if e.kind == "CTOR" and (e.extra or {}).get("native") and (str(e.b).startswith("std::pair<") or str(e.b) == "std::make_pair") and len(e.c or []) == 2]
        if len(mp) != 1:
            rep.violation(rule, site(f), "result pair not built exactly once", f["loc"], inst)
            return
        def val(x):
            # arguments bound to const references arrive as named locals: they stand for the value they hold
            for _ in range(4):
                if isinstance(x, tuple) and x[:1] in (("var",), ("tmp",)) and p.state.mem.get(x) is not None:
                    x = p.state.mem.get(x)
                else:
                    break
            return x
        def norm(t, d=0):
            """named locals inside a term stand for the values they hold"""
            if not isinstance(t, tuple) or d > 8:
                return t
            if t[:1] == ("rd",) and isinstance(t[1], tuple) and t[1][:1] in (("var",), ("tmp",)) and p.state.mem.get(t[1]) is not None:
                return norm(p.state.mem.get(t[1]), d + 1)
            if t[:1] in (("var",), ("tmp",)) and p.state.mem.get(t) is not None and not isinstance(p.state.mem.get(t), dict):
                return norm(p.state.mem.get(t), d + 1)
            if t[:1] == ("fld",) and isinstance(t[1], tuple) and t[1][:1] in (("var",), ("tmp",)) and p.state.mem.get(("copyof", t[1])) is not None and t not in p.state.mem:
                # a member of a by-value copy of an object (e.g. a structured binding of `*per_thread_data()`): the member of the original
                return norm(("fld", p.state.mem.get(("copyof", t[1]))) + t[2:], d + 1)
            return tuple(norm(x, d + 1) if isinstance(x, tuple) else x for x in t)
        sb, key = [norm(val(x)) for x in argvals(mp[0])[:2]]
        if isinstance(key, tuple) and key[:1] in (("idx",), ("fld",)):
            key = ("rd", key)  # an element bound to a const reference parameter: its value is what is stored in the pair
        if not fld_of(sb, "sandbox"):
            rep.violation(rule, site(f), "the sandbox reported is %s, not the per-thread sandbox" % fmt(sb), f["loc"], inst)
            return
        td = strip_casts(sb)[1][1]
        lay = slot_layout(db, f)
        want = ("rd", lay.cell("key", ("rd", ("fld", td, "last_callback_invoked")), base=("deref", sb)))
        if strip_casts(key) != want:
            rep.violation(rule, site(f), "the key reported is %s, not callback_unique_keys[last_callback_invoked] of the per-thread sandbox" % fmt(key), f["loc"], inst)
            return
    rep.ok(rule, site(f), "(per-thread sandbox, its callback_unique_keys[last_callback_invoked])", inst)


def check_unregister_slots(rep, db, f, inst):
    rule = "R-C12-slots"
    ps = Engine(db).run(f)
    key = ("p", f["params"][0]["n"])
    cleared = 0
    for p in ps:
        lay = slot_layout(db, f)
        ks = [idx_store(e, lay, "key") for e in p.events if idx_store(e, lay, "key") is not None and e.b == C(0)]
        cs = [idx_store(e, lay, "fn") for e in p.events if idx_store(e, lay, "fn") is not None and e.b == C(0)]
        if not ks and not cs:
            continue
        cleared += 1
        # second idiom: the slot is located with std::find over the key table; the key is cleared through the iterator and the
        # entry point at the iterator's distance from begin()
        if not ks and len(cs) == 1:
            def is_find(t):
                return (isinstance(t, tuple) and t[:1] == ("ucall",) and q.short(t[2]) == "find" and len(t[3]) >= 3 and q.mentions(t[3][2], lambda x: x == key or (isinstance(x, tuple) and x[:2] == ("var", "P") and x[2] == key[1])) and
                        all(q.mentions(a, lambda x: x == lay.table("key")) for a in t[3][:2]))
            conds = q.conds_before(p, len(p.events))

            def points_at_key(P):
                # a position in the key table: the result of std::find for the key, or a pointer whose pointee was compared equal to it
                return is_find(P) or any(c[0] == "cmp" and c[1] == "==" and {c[2], c[3]} == {("rd", ("deref", P)), key} for c in conds)
            via_it = [strip_casts(e.a[1]) for e in p.events if e.kind == "STORE" and e.b == C(0) and isinstance(e.a, tuple) and e.a[:1] == ("deref",) and points_at_key(strip_casts(e.a[1]))]
            if len(via_it) == 1:
                F = via_it[0]
                dist_ok = q.mentions(cs[0], lambda x: isinstance(x, tuple) and x[:1] in (("ptrdiff",), ("bin",), ("lin",)) and q.mentions(x, lambda y: y == F)) and \
                    q.mentions(cs[0], lambda x: x == lay.table("key"))
                found_ok = any(q.mentions(c, lambda x: x == F) for c in conds)
                if dist_ok and found_ok:
                    continue
                rep.violation(rule, site(f), "the entry point is not cleared at the position of the key found (%s)" % fmt(cs[0])[:100], f["loc"], inst)
                return
        if len(ks) != 1 or ks != cs:
            rep.violation(rule, site(f), "key and interceptor are not cleared at one and the same index (%s vs %s)" % ([fmt(x) for x in ks], [fmt(x) for x in cs]), f["loc"], inst)
            return
        conds = q.conds_before(p, len(p.events))
        cell = ("rd", lay.cell("key", ks[0]))
        if not any(c[0] == "cmp" and c[1] == "==" and set((c[2], c[3])) == {key, cell} for c in conds):
            rep.violation(rule, site(f), "the slot cleared is not the slot whose key matched", f["loc"], inst)
            return
    if cleared == 0:
        rep.violation(rule, site(f), "no path clears a slot", f["loc"], inst)
        return
    rep.ok(rule, site(f), "clears both arrays at the index whose key matched", inst)


def check_unregister_scan(rep, db, f, inst, rule="R-C12-slots"):
    """impl_unregister_callback must be able to reach EVERY slot: the only data-dependent decisions it may take on the content of
    the key table are comparisons of a key cell with the key being removed.  A scan that also stops at, or skips over, a slot for
    another reason (`keys[i] == nullptr`: "no need to look past the first free slot") misses registrations that lie beyond a hole."""
    ps = Engine(db).run(f)
    key = ("p", f["params"][0]["n"])
    lay = slot_layout(db, f)
    unrd = lambda t: t[1] if isinstance(t, tuple) and t[:1] == ("rd",) else t
    n = 0
    for p in ps:
        for e in p.events:
            if e.kind != "ASSUME":
                continue
            todo = [e.a]
            while todo:
                c = todo.pop()
                if not isinstance(c, tuple):
                    continue
                if c[:1] in (("and",), ("or",), ("not",)):
                    todo += list(c[1:])
                    continue
                cells = []
                # READS of key cells (the address of a cell, e.g. an end pointer, is not a decision on the table's content)
                q.mentions(c, lambda x: cells.append(x) or False if isinstance(x, tuple) and x[:1] == ("rd",) and isinstance(x[1], tuple) and lay.index_of("key", x[1]) is not None else False)
                if not cells:
                    continue
                n += 1
                sides = [strip_casts(unrd(x)) for x in c[2:4]] if c[:1] == ("cmp",) and len(c) == 4 else []
                vals = [strip_casts(x) for x in c[2:4]] if c[:1] == ("cmp",) and len(c) == 4 else []
                ok = c[:1] == ("cmp",) and c[1] in ("==", "!=") and any(lay.index_of("key", sd) is not None for sd in sides) and \
                    any(v == key or (isinstance(v, tuple) and v[:2] == ("var", "P") and v[2] == key[1]) for v in vals)
                if not ok:
                    rep.violation(rule, site(f) + " [scan]", "the search for the slot to clear takes a decision on the content of the key table other than comparing a key with the key being removed (%s): "
                                  "a registration lying beyond such a slot is never found, its entry point stays callable and its slot is leaked" % fmt(c)[:90], e.loc or f["loc"], inst)
                    return
    rep.ok(rule, site(f) + " [scan]", "every decision on the key table is a comparison with the key being removed (%d)" % n, inst, nontrivial=n > 0)


def check_ctx(rep, db, f, inst):
    rule = "R-C12-slots"
    ps = Engine(db).run(f)
    for p in ps:
        ic = [i for i, e in enumerate(p.events) if e.kind == "CALL" and e.a == "<indirect>"]
        st = [(i, e) for i, e in enumerate(p.events) if e.kind == "STORE" and e.a[0] == "fld" and e.a[2] == "sandbox" and e.a[1][0] in ("global", "deref")]
        if len(ic) != 1:
            continue  # R-C11-backend reports this
        before = [e for i, e in st if i < ic[0]]
        after = [e for i, e in st if i > ic[0]]
        if not before or before[-1].b != ("this",):
            rep.violation(rule, site(f) + " [context]", "`this` is not installed as the per-thread sandbox before the sandbox function runs", f["loc"], inst)
            return
        cell = before[-1].a
        if not after or after[-1].a != cell or after[-1].b != ("rd", cell):
            rep.violation(rule, site(f) + " [context]", "the previous per-thread sandbox is not restored after the call (nested invocations/callbacks would see the wrong sandbox)", f["loc"], inst)
            return
    rep.ok(rule, site(f) + " [context]", "per-thread sandbox set to this around the call and restored by a scope guard", inst)
