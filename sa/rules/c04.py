"""C04 - pointer representation conversion is faithful, null-preserving and per-sandbox (structural part)."""
from .. import facts, q
from ..engine import Engine, Inconclusive, C, fmt, subterms, lin
from ..common import site
from .ops import strip_casts

SB = "rlbox::rlbox_sandbox"
THIS_OBJ = ("deref", ("this",))
ENTRY = {
    "get_unsandboxed_pointer": ("impl_get_unsandboxed_pointer", "this"),
    "get_sandboxed_pointer": ("impl_get_sandboxed_pointer", "this"),
    "get_unsandboxed_pointer_no_ctx": ("impl_get_unsandboxed_pointer_no_ctx", None),
    "get_sandboxed_pointer_no_ctx": ("impl_get_sandboxed_pointer_no_ctx", None),
}
IMPL = set(v[0] for v in ENTRY.values())


def scan_callers(db, names):
    out = []

    def walk(x, fn):
        if isinstance(x, dict):
            if x.get("k") == "call" and x.get("fn") and x["fn"]["n"].split("::")[-1] in names:
                out.append((fn, x["fn"]["n"].split("::")[-1], x.get("loc")))
            for v in x.values():
                if isinstance(v, (dict, list)):
                    walk(v, fn)
        elif isinstance(x, list):
            for v in x:
                walk(v, fn)

    for f in db.functions:
        if not f["dep"] and "body" in f:
            walk(f["body"], f)
            for ini in f.get("inits", []):
                walk(ini, f)
    return out


def resolve_val(p, t):
    """a named local / temporary stands for the value it holds"""
    for _ in range(4):
        if isinstance(t, tuple) and t[:1] in (("var",), ("tmp",)) and p.state.mem.get(t) is not None:
            t = p.state.mem.get(t)
        else:
            break
    if isinstance(t, tuple) and t[:1] == ("addr",) and isinstance(t[1], tuple) and t[1][:1] == ("fn",):
        t = t[1]  # `&f` and `f` designate the same function
    return t


def finder_functions(db):
    """the function(s) handed to the backend's context-free translations as 'find the sandbox that owns this address' - identified by
    that use, not by name"""
    out = {}
    for f in db.functions:
        if f["dep"] or "body" not in f or not f["n"].startswith(SB + "::") or f["sn"] not in ENTRY or ENTRY[f["sn"]][1] is not None:
            continue
        try:
            ps = q.paths(db, f)
        except Inconclusive:
            continue
        for p in ps:
            for e in p.events:
                fv = resolve_val(p, e.b[2]) if e.kind == "CALL" and len(e.b) >= 3 else None
                if e.kind == "CALL" and q.short(e.a) == ENTRY[f["sn"]][0] and isinstance(fv, tuple) and fv[:1] == ("fn",):
                    g = db.fn_by_id.get(fv[2]) if len(fv) > 2 else None
                    if g is not None:
                        out[g["id"]] = g
    return out


def enum_arg(s):
    return (s or "").split("::")[-1]


def check_only_via(rep, db, label, cnt=lambda k: None):
    """R-C04-only-via: who may call the backend's pointer translation hooks"""
    for fn, callee, loc in scan_callers(db, IMPL):
        cnt("via")
        ok = (fn["n"].startswith(SB + "::") and fn["sn"] in ENTRY and ENTRY[fn["sn"]][0] == callee) or \
             (fn["n"] == SB + "::get_app_pointer" and callee == "impl_get_unsandboxed_pointer") or \
             fn["sn"].startswith("impl_")
        if not ok and fn["n"].startswith("rlbox::") and self_guarded_translation(db, fn):
            # the function carries the null short-circuit itself: on every path the backend hook is called only with an argument
            # that was tested non-null / non-zero (the entry points' bodies moved into a helper that others may call too)
            ok = True
        encl = db.rec_by_id.get(fn.get("rid")) or {}
        hidden = fn.get("access") in (1, 2) or (encl.get("access") in (1, 2) and (encl.get("n") or "").startswith(SB + "::"))
        if not ok and fn["n"].startswith(SB + "::") and hidden:
            # a non-public helper shared by the entry points: its callers must all be entry points (R-C04-null then judges the
            # null short-circuit and the choice of backend hook on each entry point with the helper inlined)
            from .owners import reached_only_from
            ok = reached_only_from(db, fn["n"], {SB + "::" + e_ for e_ in ENTRY} | {SB + "::get_app_pointer"})
        if ok:
            rep.ok("R-C04-only-via", fn["n"], "calls %s" % callee, "%s | %s" % (label, loc), nontrivial=False)
        else:
            rep.violation("R-C04-only-via", fn["n"] + " [direct backend translation]", "%s calls %s directly, bypassing the null short-circuit of the translation entry points" % (fn["n"], callee), loc, label)


def run(rep, tier):
    rep.rule("R-C04-null", "in each of the four translation entry points the backend translation is reachable only when the representation/address is non-zero, and the zero case returns null/0 without calling the backend")
    rep.rule("R-C04-only-via", "impl_get_[un]sandboxed_pointer[_no_ctx] are called only from those four entry points, from get_app_pointer (token proven non-zero by C15) and from the backend itself")
    rep.rule("R-C04-route", "in every pointer instantiation of convert_type_non_class the callee matches the template arguments (TO_SANDBOX<->get_sandboxed*, TO_APPLICATION<->get_unsandboxed*, "
             "SANDBOX<->member call on sandbox_ptr, EXAMPLE<->_no_ctx with the example argument), its argument is `from`, its result is stored in `to`; arrays of pointers visit every index once; NO_CHANGE copies the value")
    rep.rule("R-C04-example", "every example address passed with Context::EXAMPLE from a tainted_volatile member, a struct specialisation or tainted's converting constructor is the address of the volatile cell/object involved "
             "(never null, never an application-memory local); Context::SANDBOX calls pass a sandbox pointer derived from this/the sandbox parameter")
    rep.rule("R-C04-nullstore", "tainted_volatile<T*> = nullptr stores the integer 0")
    rep.rule("R-C04-find", "find_sandbox_from_example returns the list element for which is_pointer_in_sandbox_memory(example) held, or null")
    rep.rule("R-C04-identity", "in the bundled backends the four translations return their argument unchanged")
    backends = ["model32", "noop"] if tier == "quick" else ["model32", "model32gi", "noop", "dylib"]
    dbs = facts.load_core(backends, ["PTR", "ARR", "INVOKE"], thorough=(tier == "thorough"))
    n = {}

    def cnt(k):
        n[k] = n.get(k, 0) + 1

    for db in dbs:
        rep.units.append(db.label)
        label = db.label
        check_only_via(rep, db, label, cnt)
        # the registry the context-free translations search must keep every live sandbox: destroy removes exactly its own entry
        from ..report import RuleView as _RV
        for f_ in db.functions:
            if not f_["dep"] and "body" in f_ and f_["n"] in (SB + "::create_sandbox", SB + "::destroy_sandbox"):
                from . import c14 as _c14
                try:
                    (_c14.check_create if f_["sn"] == "create_sandbox" else _c14.check_destroy)(_RV(rep, {"R-C14-registry": "R-C04-find"}), db, f_, "%s | %s" % (label, f_["full"][:150]), {})
                except Inconclusive as ex:
                    rep.inconclusive("R-C04-find", site(f_), str(ex), "%s | %s" % (label, f_["full"][:150]))
        finders = finder_functions(db)
        for f in db.functions:
            if f["dep"] or "body" not in f:
                continue
            inst = "%s | %s" % (label, f["full"][:170])
            try:
                if f["id"] in finders:
                    check_find(rep, db, f, inst); cnt("find")
                elif f["n"].startswith(SB + "::") and f["sn"] in ENTRY:
                    check_entry(rep, db, f, inst); cnt("entry")
                elif f["n"] == "rlbox::detail::convert_type_non_class":
                    if check_route(rep, db, f, inst):
                        cnt("route")
                elif f["sn"] in IMPL and not label.startswith("model32"):
                    check_identity(rep, db, f, inst); cnt("identity")
                elif is_example_user(f):
                    if check_example(rep, db, f, inst):
                        cnt("example")
            except Inconclusive as ex:
                rep.inconclusive("R-C04", site(f), str(ex), inst)
    floors = {"via": 20, "entry": 40, "route": 60, "find": 2, "identity": 8, "example": 60}
    for k, v in floors.items():
        rep.require(n.get(k, 0) >= v, "only %d instances for rule group '%s' (floor %d)" % (n.get(k, 0), k, v))
    rep.extra["instances"] = n
    rep.assumptions += ["round-trip arithmetic of third-party backends is the backend contract (impl_get_unsandboxed_pointer/impl_get_sandboxed_pointer are inverse on in-sandbox addresses)",
                        "the run-time content of the live-sandbox list is governed by C14/C18"]


_SELF_GUARDED = {}


def self_guarded_translation(db, fn):
    key = (id(db), fn["id"])
    if key in _SELF_GUARDED:
        return _SELF_GUARDED[key]
    res = False
    try:
        ps = Engine(db).run(fn)
        n = 0
        res = bool(ps)
        for p in ps:
            for i, e in enumerate(p.events):
                if e.kind == "CALL" and q.short(e.a) in IMPL:
                    n += 1
                    if not e.b or not q.nonnull(q.conds_before(p, i), e.b[0]):
                        res = False
        res = res and n > 0
    except Inconclusive:
        res = False
    _SELF_GUARDED[key] = res
    return res


def check_entry(rep, db, f, inst):
    rule = "R-C04-null"
    impl, obj = ENTRY[f["sn"]]
    ps = Engine(db).run(f)
    p0 = ("p", f["params"][0]["n"])
    saw_null = saw_call = False
    for p in ps:
        calls = [(i, e) for i, e in enumerate(p.events) if e.kind == "CALL" and q.short(e.a) in IMPL]
        conds = q.conds_before(p, len(p.events))
        if calls:
            saw_call = True
            i, e = calls[0]
            if len(calls) != 1 or q.short(e.a) != impl:
                rep.violation(rule, site(f), "expected one call of %s, found %s" % (impl, [q.short(c.a) for _i, c in calls]), f["loc"], inst)
                return
            if not q.nonnull(q.conds_before(p, i), p0):
                rep.violation(rule, site(f), "the backend translation %s is reachable with a null/zero argument (null must map to 0 and 0 to null without consulting the backend)" % impl, f["loc"], inst)
                return
            if e.b[0] != p0 or (obj == "this" and e.c != ("this",)):
                rep.violation(rule, site(f), "the backend is asked to translate %s on %s instead of the argument on this sandbox" % (fmt(e.b[0]), fmt(e.c) if e.c else None), f["loc"], inst)
                return
            if obj is None:
                ex = ("p", f["params"][1]["n"])
                fv = resolve_val(p, e.b[2]) if len(e.b) >= 3 else None
                if len(e.b) < 3 or e.b[1] != ex or not (isinstance(fv, tuple) and fv[:1] == ("fn",) and fv[1].split("<")[0].startswith(SB)):
                    rep.violation(rule, site(f), "the context-free translation does not forward the example address and the sandbox finder", f["loc"], inst)
                    return
            if strip_casts(p.retval) != (e.extra or {}).get("ret"):
                rep.violation(rule, site(f), "the value returned is not the backend's translation", f["loc"], inst)
                return
        else:
            saw_null = True
            if not q.is_null_assumed(conds, p0) or strip_casts(p.retval) != C(0):
                rep.violation(rule, site(f), "a path without backend translation does not return null/0 for a null/0 argument", f["loc"], inst)
                return
    if not (saw_null and saw_call):
        rep.violation(rule, site(f), "expected a null short-circuit path and a translating path", f["loc"], inst)
        return
    rep.ok(rule, site(f), "null short-circuit, otherwise exactly one %s of the argument" % impl, inst)


def is_ptr_like(t):
    return (t or {}).get("k") in ("ptr", "fnptr")


def check_route(rep, db, f, inst):
    rule = "R-C04-route"
    ta = f.get("targs") or []
    tt = f.get("targt") or []
    if len(ta) < 5:
        return False
    direction, context = enum_arg(ta[1]), enum_arg(ta[2])
    To, Fr = tt[3] or {}, tt[4] or {}
    c_to, c_fr = To.get("c") or "", Fr.get("c") or ""
    is_arr = lambda t: t.get("k") == "array" or (t.get("k") == "rec" and (t.get("rn") or "").startswith("std::array"))
    ptr_scalar = is_ptr_like(To) or is_ptr_like(Fr)
    ptr_array = (is_arr(To) or is_arr(Fr)) and ("*" in c_to or "*" in c_fr)
    if not (ptr_scalar or ptr_array):
        return False
    ps = Engine(db).run(f)
    to, fr = ("pobj", f["params"][0]["n"]), ("pobj", f["params"][1]["n"])
    example, sbp = ("p", f["params"][2]["n"]), ("p", f["params"][3]["n"])
    want = {("TO_SANDBOX", "SANDBOX"): "impl_get_sandboxed_pointer", ("TO_SANDBOX", "EXAMPLE"): "impl_get_sandboxed_pointer_no_ctx",
            ("TO_APPLICATION", "SANDBOX"): "impl_get_unsandboxed_pointer", ("TO_APPLICATION", "EXAMPLE"): "impl_get_unsandboxed_pointer_no_ctx"}.get((direction, context))
    n_store = 0
    for p in ps:
        stores = [(i, e) for i, e in enumerate(p.events) if e.kind == "STORE" and (e.a == to or (e.a[0] == "idx" and e.a[1] == to))]
        bulk = [e for e in p.events if e.kind == "CALL" and q.short(e.a) in ("memcpy", "memmove")]
        if direction == "NO_CHANGE":
            if ptr_array:
                if len(bulk) != 1 or bulk[0].b[0] != ("addr", to) or bulk[0].b[1] != ("addr", fr) or bulk[0].b[2] != C(To.get("sz")) or To.get("sz") != Fr.get("sz"):
                    rep.violation(rule, site(f), "NO_CHANGE on arrays of pointers must copy exactly sizeof(array) bytes between equal-size arrays", f["loc"], inst)
                    return True
            else:
                if len(stores) != 1 or not is_read_of(stores[0][1].b, fr) or To.get("sz") != Fr.get("sz"):
                    rep.violation(rule, site(f), "NO_CHANGE must copy the source representation unchanged between equal-size types", f["loc"], inst)
                    return True
            n_store += 1
            continue
        if ptr_array and not stores:
            if any(e.kind == "LOOP_BEGIN" for e in p.events):
                rep.violation(rule, site(f), "an iteration of the element loop leaves its destination element unwritten (the element keeps whatever it held before)", f["loc"], inst)
                return True
            continue  # zero-iteration path of the element loop (pruned for constant bounds)
        for i, e in stores:
            n_store += 1
            src = fr if not ptr_array else ("idx", fr, e.a[2]) if e.a[0] == "idx" else None
            v = strip_casts(e.b)
            if v == C(0):
                conds = q.conds_before(p, i)
                if not any(c[0] == "cmp" and c[1] == "==" and c[3] == C(0) and is_read_of(c[2], src) for c in conds):
                    rep.violation(rule, site(f), "0/null is stored although the source was not tested to be null/0", f["loc"], inst)
                    return True
                continue
            if not (isinstance(v, tuple) and v[0] in ("call", "ucall") and q.short(v[1] if v[0] == "call" else v[2]) == want):
                rep.violation(rule, site(f), "Direction=%s Context=%s must translate with %s; the value stored is %s" % (direction, context, want, fmt(v)[:120]), f["loc"], inst)
                return True
            # the pointer's static type must reach the backend: backends that represent function pointers differently from data
            # pointers (tables) select on it
            app_t = Fr if direction == "TO_SANDBOX" else To
            app_c = app_t.get("el") if is_arr(app_t) and app_t.get("k") == "array" else (first_targ(app_t.get("c") or "") if is_arr(app_t) else app_t.get("c"))
            ce = next((c_ for c_ in p.events[:i + 1][::-1] if c_.kind == "CALL" and q.short(c_.a) == want), None)
            tas = (ce.extra or {}).get("ta") if ce is not None else None
            if tas and app_c and norm_t(tas[0]) != norm_t(app_c):
                rep.violation(rule, site(f), "the backend translation is instantiated for '%s' although the pointer converted has type '%s': a backend that distinguishes function pointers from data pointers "
                              "translates it as the wrong kind" % (tas[0], app_c), ce.loc, inst)
                return True
            args = q.call_args(v)
            if not is_read_of(args[0], src):
                rep.violation(rule, site(f), "the value translated is %s, not the source %s" % (fmt(args[0]), fmt(src)), f["loc"], inst)
                return True
            if context == "SANDBOX":
                if v[-1] != sbp:
                    rep.violation(rule, site(f), "Context::SANDBOX must translate relative to sandbox_ptr (got %s)" % fmt(v[-1]), f["loc"], inst)
                    return True
            else:
                if len(args) < 2 or args[1] != example:
                    rep.violation(rule, site(f), "Context::EXAMPLE must pass the example address (got %s)" % (fmt(args[1]) if len(args) > 1 else None), f["loc"], inst)
                    return True
        if ptr_array:
            # every index exactly once: i from 0, i < N, i += 1, element i -> element i
            N = To.get("n") or first_extent(c_to)
            conds = q.conds_before(p, len(p.events))
            ivs = {e.a[2] for i, e in stores if e.a[0] == "idx"}
            if len(ivs) != 1:
                rep.violation(rule, site(f), "array conversion does not store exactly one element per iteration", f["loc"], inst)
                return True
            iv = list(ivs)[0]
            bound_ok = q.loop_bound_ok(p, len(p.events), iv, N)
            lname = iv[-1] if isinstance(iv, tuple) and iv[:1] == ("havoc",) else "i"
            init_ok = any(e.kind == "DECL" and e.b == lname and e.c == C(0) for e in p.events)
            inc_ok = any(e.kind == "STORE" and e.b == lin("+", iv, C(1)) for e in p.events)
            if any(e.kind == "COUNTER" and e.a == iv for e in p.events):
                init_ok = inc_ok = True    # the engine's iteration counter of a lockstep pointer walk (from 0, one step per iteration)
            if not (bound_ok and init_ok and inc_ok):
                rep.violation(rule, site(f), "the element loop does not run i = 0 .. N-1 (N=%s) in steps of 1" % N, f["loc"], inst)
                return True
    if n_store == 0:
        rep.violation(rule, site(f), "nothing is stored into the destination", f["loc"], inst)
        return True
    rep.ok(rule, site(f), "%s/%s routes through %s" % (direction, context, want or "value copy"), inst)
    return True


def norm_t(c):
    import re
    c = re.sub(r"\b(const|volatile)\b", "", c or "")
    return re.sub(r"\s+", "", c)


def first_targ(c):
    """element type of std::array<T, N>"""
    i = c.find("<")
    if i < 0:
        return None
    depth, j = 0, i + 1
    for j in range(i + 1, len(c)):
        if c[j] in "<(":
            depth += 1
        elif c[j] in ">)":
            depth -= 1
        elif c[j] == "," and depth == 0:
            break
    return c[i + 1:j].strip()


def first_extent(c):
    import re
    m = re.search(r", (\d+)>$", c) or re.search(r"\[(\d+)\]", c)
    return int(m.group(1)) if m else None


def is_read_of(t, lv):
    t = strip_casts(t)
    if lv is None or not isinstance(t, tuple):
        return False
    if t[:1] == ("rd",):
        return t[1] == lv
    if t[:1] == ("vrd",):
        return t[2] == lv
    return False


def is_example_user(f):
    n = f["n"]
    if n in ("rlbox::tainted_volatile::get_raw_value", "rlbox::tainted_volatile::operator=", "rlbox::tainted::get_raw_sandbox_value"):
        return True
    if n == "rlbox::tainted::tainted" and len(f["params"]) == 1 and "tainted_volatile" in ((f["params"][0]["t"] or {}).get("c") or ""):
        return True
    return False


def check_example(rep, db, f, inst, rule="R-C04-example"):
    ps = Engine(db).run(f)
    seen = False
    pnames = [p_["n"] for p_ in f["params"]]
    for p in ps:
        for e in p.events:
            if e.kind != "CALL" or q.short(e.a) not in IMPL:
                continue
            seen = True
            nm = q.short(e.a)
            if nm.endswith("_no_ctx"):
                ex = e.b[1]
                ok = False
                why = ""
                cls0 = f["n"].split("::")[1]
                if ex == ("this",) and cls0 == "tainted_volatile":
                    ok = True  # address of the tainted_volatile object itself (struct specialisations)
                elif isinstance(ex, tuple) and ex[:1] == ("addr",):
                    root = ex[1]
                    while root[0] in ("fld", "idx"):
                        root = root[1]
                    # the cell/object must be the tainted_volatile involved: *this of a tainted_volatile member, or the tainted_volatile parameter
                    cls = f["n"].split("::")[1]
                    if root == THIS_OBJ and cls == "tainted_volatile":
                        ok = True
                    elif root[:1] == ("pobj",) and "tainted_volatile" in (param_type(f, root[1]) or ""):
                        ok = True
                    else:
                        why = "the address of %s, which is not the sandbox-memory cell involved" % fmt(ex[1])
                else:
                    why = "%s (not the address of the volatile cell)" % fmt(ex)
                if not ok:
                    rep.violation(rule, site(f), "context-free translation receives as example %s" % why, e.loc, inst)
                    return True
            else:
                if e.c is None or e.c == C(0) or not (e.c == ("addr", ("pobj", "sandbox")) or e.c == ("this",) or (isinstance(e.c, tuple) and e.c[:1] == ("addr",) and e.c[1][:1] == ("pobj",))):
                    rep.violation(rule, site(f), "context translation on %s, which is not a sandbox derived from the caller's sandbox parameter" % fmt(e.c), e.loc, inst)
                    return True
    # R-C04-nullstore
    if rule == "R-C04-example" and f["n"] == "rlbox::tainted_volatile::operator=" and "nullptr_t" in ((f["params"][0]["t"] or {}).get("c") or ""):
        for p in ps:
            st = [e for e in p.events if e.kind == "STORE" and e.a == ("fld", THIS_OBJ, "data")]
            if len(st) == 1 and st[0].b == C(0):
                rep.ok("R-C04-nullstore", site(f), "stores 0", inst)
            else:
                rep.violation("R-C04-nullstore", site(f), "assigning nullptr does not store the integer 0 (stores %s)" % [fmt(x.b) for x in st], f["loc"], inst)
        return True
    if not seen:
        return False
    rep.ok(rule, site(f), "examples are addresses of the volatile cell/object involved; contexts derive from the sandbox parameter", inst)
    return True


def param_type(f, name):
    base = name.split("#")[0]
    for p_ in f["params"]:
        if p_["n"] == base:
            return (p_["t"] or {}).get("c")
    return None


def check_find(rep, db, f, inst, rule="R-C04-find"):
    ps = Engine(db).run(f)
    ex = ("p", f["params"][0]["n"])
    saw = False
    for p in ps:
        r = strip_casts(p.retval)
        if r == C(0):
            continue
        saw = True
        conds = q.conds_before(p, len(p.events))
        ok = any(c[0] == "cmp" and c[1] == "!=" and c[3] == C(0) and q.is_call(c[2], "impl_is_pointer_in_sandbox_memory") and q.call_args(c[2]) == (ex,) and strip_rd(c[2][-1]) == strip_rd(r) for c in conds)
        # the sandbox returned is a list element, or a value read out of exactly one list element (an entry struct wrapping the pointer)
        elems = set()
        q.mentions(strip_rd(r), lambda x: elems.add(x) or False if isinstance(x, tuple) and x[:1] == ("elem",) else False)
        of_one_elem = len(elems) == 1 and "sandbox_list" in fmt(list(elems)[0][2])
        if not of_one_elem or not ok:
            rep.violation(rule, site(f), "returns %s, which is not the list element whose memory contains the example address" % fmt(r)[:120], f["loc"], inst)
            return
    if not saw:
        rep.violation(rule, site(f), "never returns a sandbox", f["loc"], inst)
        return
    rep.ok(rule, site(f), "returns the element for which is_pointer_in_sandbox_memory(example) held, else null", inst)


def strip_rd(t):
    t = strip_casts(t)
    if isinstance(t, tuple) and t[:1] == ("rd",):
        return strip_casts(t[1]) if not (isinstance(t[1], tuple) and t[1][:1] == ("var",)) else t
    return t


def check_identity(rep, db, f, inst):
    rule = "R-C04-identity"
    ps = Engine(db, opaque_backend=False).run(f)
    p0 = ("p", f["params"][0]["n"])
    for p in ps:
        if strip_casts(p.retval) != p0:
            rep.violation(rule, site(f), "the bundled backend's translation returns %s instead of its argument" % fmt(p.retval), f["loc"], inst)
            return
    rep.ok(rule, site(f), "identity", inst)
