"""C09 - verified copies are application-memory snapshots: no check/use window (snapshot + single-fetch shape)."""
from .. import facts, q
from ..engine import root_param_names, Engine, Inconclusive, C, fmt, subterms, lin
from ..common import site
from .ops import strip_casts

BASE = "rlbox::tainted_base_impl::"
THIS_OBJ = ("deref", ("this",))
VARIANTS = ["copy_and_verify", "copy_and_verify_range", "copy_and_verify_string", "copy_and_verify_address", "copy_and_verify_buffer_address"]
ADDRESS_VARIANTS = {"copy_and_verify_address", "copy_and_verify_buffer_address"}


def root_of(lv):
    while isinstance(lv, tuple) and lv and lv[0] in ("fld", "idx"):
        lv = lv[1]
    return lv


def is_sandbox_lv(lv, this_is_volatile):
    """lvalue designates sandbox memory: reached through a pointer dereference, or the tainted_volatile object itself"""
    r = root_of(lv)
    if isinstance(r, tuple) and r[:1] == ("deref",):
        if r == THIS_OBJ:
            return this_is_volatile
        return True
    return False


def sandbox_reads(p, upto, this_is_volatile):
    return [e for e in p.events[:upto] if e.kind == "VREAD" and not (e.extra or {}).get("local") and is_sandbox_lv(e.a, this_is_volatile)]


def verifier_calls(p, vname="verifier"):
    """calls of the verifier parameter (the entry point's first parameter, whatever it is called), also through by-value copies of
    it handed to a helper"""
    def is_verifier(o):
        o = strip_casts(o)
        for _ in range(6):
            if isinstance(o, tuple) and o[:1] == ("addr",):
                o = o[1]
            if o == ("pobj", vname):
                return True
            c_ = p.state.mem.get(("copyof", o)) if isinstance(o, tuple) else None
            if c_ is None:
                return False
            o = c_
        return False
    return [(i, e) for i, e in enumerate(p.events) if e.kind == "CALL" and e.c is not None and is_verifier(e.c)]


def local_object(p, t):
    return isinstance(t, tuple) and t[:1] in (("tmp",), ("var",))


def points_into_sandbox(p, t, this_ptr_val):
    """term is (derived from) the raw pointer value of the wrapper"""
    return t is not None and q.mentions(t, lambda x: x == this_ptr_val)


def run(rep, tier):
    rep.rule("R-C09-snapshot", "the argument handed to the verifier is a by-value scalar, or a local application-memory object (local variable, moved unique_ptr/std::string, tainted<T> copy) whose content was produced "
             "before the call; it is never a reference/pointer into sandbox memory and never a tainted_volatile (the address variants pass the address as an integer by design)")
    rep.rule("R-C09-single-fetch", "scalar variants read the sandbox cell feeding the verifier exactly once; range/string variants use one and the same length value for the range check, the allocation, "
             "the copy loop bound and (strings) the terminator index / string constructor, with at most one strlen; each element is read once per iteration")
    rep.rule("R-C09-terminator", "on the unique_ptr<char[]> string path a store of 0 at index len-1 of the local buffer dominates the verifier call")
    rep.rule("R-C09-struct", "struct copy_and_verify converts into a local tainted<T> first and passes that")
    backends = ["model32"] if tier == "quick" else ["model32", "noop", "model32gi"]
    dbs = facts.load_core(backends, ["PTR", "INVOKE", "ARR"], thorough=(tier == "thorough"))
    n = {}
    for db in dbs:
        rep.units.append(db.label)
        for f in db.functions:
            if f["dep"] or "body" not in f:
                continue
            inst = "%s | %s" % (db.label, f["full"][:170])
            try:
                if f["n"].startswith(BASE) and f["sn"] in VARIANTS:
                    check_variant(rep, db, f, inst)
                    n[f["sn"]] = n.get(f["sn"], 0) + 1
                elif f["n"] in ("rlbox::tainted_volatile::copy_and_verify", "rlbox::tainted::copy_and_verify"):
                    check_struct(rep, db, f, inst)
                    n["struct"] = n.get("struct", 0) + 1
            except Inconclusive as ex:
                rep.inconclusive("R-C09", site(f), str(ex), inst)
    floors = {"copy_and_verify": 40, "copy_and_verify_range": 10, "copy_and_verify_string": 3, "copy_and_verify_address": 10, "copy_and_verify_buffer_address": 10, "struct": 2}
    for k, v in floors.items():
        rep.require(n.get(k, 0) >= v, "only %d instantiations of %s (floor %d)" % (n.get(k, 0), k, v))
    rep.extra["instances"] = n
    rep.assumptions += ["schedules are not explored: the rules decide the snapshot / single-fetch shape, which is the structural necessary condition for the absence of a check/use window",
                        "re-reading the *pointer* cell of a tainted_volatile<T*> between range check and element loop is covered by the per-element containment check of operator[] (C05) and is not a C09 clause"]


def unchecked_element_read(p, upto):
    """an element read inside the copy loop whose address is built from a fetch of the pointer cell that no dominating containment
    check (is_in_same_sandbox / is_pointer_in_sandbox_memory abort check) mentions"""
    evs = p.events
    for k, e in enumerate(evs[:upto]):
        if e.kind != "VREAD" or (e.extra or {}).get("local") or e.loop == 0:
            continue
        lv = e.a
        if lv == ("fld", THIS_OBJ, "data") or (isinstance(lv, tuple) and lv[:1] == ("fld",) and lv[1] == THIS_OBJ):
            continue   # the pointer cell itself
        fetches = set()
        q.mentions(lv, lambda x: fetches.add(x) or False if isinstance(x, tuple) and x[:1] == ("vrd",) and len(x) > 2 and x[2] == ("fld", THIS_OBJ, "data") else False)
        for v in fetches:
            covered = any(e2.kind == "ASSUME" and (e2.extra or {}).get("abort_check") and
                          q.mentions(e2.a, lambda x: isinstance(x, tuple) and x[:1] in (("ucall",), ("call",)) and
                                     q.short(x[2] if x[0] == "ucall" else x[1]) in ("impl_is_in_same_sandbox", "impl_is_pointer_in_sandbox_memory") and q.mentions(x, lambda y: y == v))
                          for e2 in evs[:k])
            if not covered:
                return "an element is read at %s: that address is built from a fetch of the pointer cell which no containment check covers (the range was checked for an earlier fetch)" % fmt(lv)[:90]
    return None


def uncovered_fetch(p, term, k):
    """a fetch of the pointer cell (vrd of this->data) mentioned in `term` that no containment abort check before event k mentions"""
    evs = p.events
    fetches = set()
    q.mentions(term, lambda x: fetches.add(x) or False if isinstance(x, tuple) and x[:1] == ("vrd",) and len(x) > 2 and x[2] == ("fld", THIS_OBJ, "data") else False)
    for v in fetches:
        covered = any(e2.kind == "ASSUME" and (e2.extra or {}).get("abort_check") and
                      q.mentions(e2.a, lambda x: isinstance(x, tuple) and x[:1] in (("ucall",), ("call",)) and
                                 q.short(x[2] if x[0] == "ucall" else x[1]) in ("impl_is_in_same_sandbox", "impl_is_pointer_in_sandbox_memory") and as_address(x, v))
                      for e2 in evs[:k])
        if not covered:
            return v
    return None


def as_address(t, v):
    """does term t mention v as (part of) an ADDRESS - i.e. other than inside the argument of a length computation (strlen(...)), whose
    result is a number that says nothing about where v points"""
    if t == v:
        return True
    if not isinstance(t, tuple):
        return False
    if t[:1] in (("ucall",), ("call",)) and q.short(t[2] if t[0] == "ucall" else t[1]) in ("strlen", "strnlen", "wcslen"):
        return False
    return any(as_address(x, v) if isinstance(x, tuple) else (isinstance(x, list) and any(as_address(y, v) for y in x)) for x in t)


def check_variant(rep, db, f, inst):
    from . import ops
    wk = ops.wrapper_kind(f)
    this_vol = wk == "tainted_volatile"
    T = ops.class_T(f) or {}
    ps = q.paths(db, f)
    sn = f["sn"]
    if not ps:
        rep.violation("R-C09-snapshot", site(f), "no returning path", f["loc"], inst)
        return
    this_ptr = ("rd", ("fld", THIS_OBJ, "data"))
    for p in ps:
        vc = verifier_calls(p, root_param_names(f)[0])
        if len(vc) != 1:
            rep.violation("R-C09-snapshot", site(f), "the verifier is called %d times on a path" % len(vc), f["loc"], inst)
            return
        i, call = vc[0]
        if this_vol and sn in ("copy_and_verify_range", "copy_and_verify_string"):
            # the pointer itself lives in sandbox memory: every element read in the copy loop must go through an address that was
            # containment-checked against the SAME fetched pointer value (a later re-fetch of the cell may name other memory)
            why = unchecked_element_read(p, i)
            if why:
                rep.violation("R-C09-single-fetch", site(f) + " [element address]", why, f["loc"], inst)
                return
        later = [e for e in p.events[i + 1:] if e.kind == "VREAD" and not (e.extra or {}).get("local") and is_sandbox_lv(e.a, this_vol)]
        if later:
            rep.violation("R-C09-snapshot", site(f), "sandbox memory is read after the verifier ran (%s)" % fmt(later[0].a), later[0].loc, inst)
            return
        for a in call.b:
            av = a
            if sn in ADDRESS_VARIANTS:
                continue
            if local_object(p, a):
                # a unique_ptr/string/tainted local: its payload must not alias sandbox memory
                payload = [v for k, v in p.state.mem.items() if isinstance(k, tuple) and k and k[0] in ("fld", "idx") and root_of(k) in (a, p.state.mem.get(("copyof", a)))]
                moved_from = p.state.mem.get(("copyof", a))
                ctor = [e for e in p.events[:i] if e.kind == "CALL" and (e.extra or {}).get("ret") == a and (e.extra or {}).get("ctor")]
                bad = None
                for e in ctor:
                    if q.short(e.a) in ("basic_string", "vector"):
                        continue  # owning containers copy the bytes they are constructed from (the copy's extent is R-C09-single-fetch's)
                    for x in e.b:
                        if x != C(0) and not local_object(p, x) and T.get("k") == "ptr" and points_into_sandbox(p, x, this_ptr):
                            bad = x
                if bad is not None:
                    rep.violation("R-C09-snapshot", site(f), "the object given to the verifier wraps %s, i.e. memory the sandbox can still change" % fmt(bad), call.loc, inst)
                    return
                continue
            t = strip_casts(a)
            if isinstance(t, tuple) and t[:1] in (("deref",), ("fld",), ("idx",)) and is_sandbox_lv(t, this_vol):
                rep.violation("R-C09-snapshot", site(f), "the verifier receives a reference into sandbox memory (%s) instead of a copy" % fmt(t), call.loc, inst)
                return
            if T.get("k") == "ptr" and t == this_ptr:
                rep.violation("R-C09-snapshot", site(f), "the verifier receives the raw pointer into sandbox memory instead of a copy of the pointee", call.loc, inst)
                return
        # ---- single fetch
        reads = sandbox_reads(p, i, this_vol)
        if sn == "copy_and_verify" and T.get("k") in ("int", "bool", "enum", "float"):
            cells = [e for e in reads]
            if this_vol and len(cells) != 1:
                rep.violation("R-C09-single-fetch", site(f), "the sandbox cell is read %d times before the verifier is called (the value checked/converted may differ from the value used)" % len(cells), f["loc"], inst)
                return
        if sn == "copy_and_verify" and T.get("k") == "ptr" and not (T.get("pteu") or "").startswith("Vb"):
            cells = [e for e in reads if e.loop == 0 and root_of(e.a) != THIS_OBJ]
            if len({fmt(e.a) for e in cells}) != len(cells):
                rep.violation("R-C09-single-fetch", site(f), "the pointee is fetched more than once before the verifier runs", f["loc"], inst)
                return
        if sn in ("copy_and_verify_address", "copy_and_verify_buffer_address") and this_vol:
            cells = [e for e in reads if root_of(e.a) == THIS_OBJ]
            if len(cells) != 1:
                rep.violation("R-C09-single-fetch", site(f), "the pointer cell in sandbox memory is read %d times before the verifier is called: the address that was checked need not be the address the verifier receives" % len(cells),
                              cells[-1].loc if cells else f["loc"], inst)
                return
            addr_ok = True
        if sn in ("copy_and_verify_range", "copy_and_verify_string"):
            if not check_lengths(rep, db, f, inst, p, i, sn):
                return
    if sn in ("copy_and_verify_address", "copy_and_verify_buffer_address") and this_vol:
        rep.ok("R-C09-single-fetch", site(f), "the pointer cell is fetched once", inst)
    rep.ok("R-C09-snapshot", site(f), "verifier called once with a by-value / local snapshot; no sandbox read afterwards (%d paths)" % len(ps), inst)
    if sn in ("copy_and_verify_range", "copy_and_verify_string") or (sn == "copy_and_verify" and this_vol):
        rep.ok("R-C09-single-fetch", site(f), "one fetch per cell / one length value throughout", inst)


def check_lengths(rep, db, f, inst, p, i, sn):
    evs = p.events[:i]
    conds = q.conds_before(p, i)
    this_ptr = ("rd", ("fld", THIS_OBJ, "data"))
    strlens = [e for e in evs if e.kind == "CALL" and q.short(e.a) == "strlen"]
    allocs = [e for e in evs if e.kind == "CALL" and q.short(e.a) in ("make_unique", "operator new", "malloc") and e.b]
    if sn == "copy_and_verify_string":
        if len(strlens) > 1:
            rep.violation("R-C09-single-fetch", site(f), "strlen is evaluated %d times: the length that was range-checked need not be the length that is copied" % len(strlens), f["loc"], inst)
            return False
        if not strlens:
            return True  # null path
        ln = lin("+", (strlens[0].extra or {}).get("ret"), C(1))
    else:
        ln = ("p", f["params"][1]["n"])
        if not allocs:
            return True  # null path
    # range check extent
    base = None
    exts = []
    for a, b in q.same_sandbox_facts(conds):
        if not q.mentions(b, lambda x: isinstance(x, tuple) and x[:1] == ("havoc",)):
            exts.append((a, lin("+", lin("-", b, a), C(1))))
    ok_ext = any(ext_matches(e, ln) for _a, e in exts)
    if not ok_ext and sn == "copy_and_verify_string" and not exts:
        # a pointer that lives in sandbox memory may read as null on the fetch the range helper makes although the first fetch was not:
        # nothing is range-checked then, and nothing may be copied either - the verifier gets the empty string / nullptr
        copies = bool(allocs) or any(e.kind == "VREAD" and e.loop > 0 and not (e.extra or {}).get("local") and root_of(e.a) != THIS_OBJ for e in evs) or \
            any(e.kind == "CALL" and q.short(e.a) in ("basic_string", "memcpy", "strncpy", "strcpy", "assign", "append") and e.b and
                not (isinstance(e.b[0], tuple) and e.b[0][:1] in (("decay",), ("strobj",), ("str",))) and e.b[0] != C(0) and
                q.mentions(e.b[0], lambda x: isinstance(x, tuple) and x[:1] in (("vrd",), ("rd",))) for e in evs)
        if not copies:
            return True
    if not ok_ext:
        rep.violation("R-C09-single-fetch", site(f), "the extent that is range-checked is not derived from the length value %s" % fmt(ln), f["loc"], inst)
        return False
    for a in allocs:
        if a.b[0] != ln:
            rep.violation("R-C09-single-fetch", site(f), "the local buffer is allocated with %s, not with the checked length %s" % (fmt(a.b[0]), fmt(ln)), a.loc, inst)
            return False
    bounds = [c for c in conds if c[0] == "cmp" and c[1] == "<" and isinstance(c[2], tuple) and c[2][:1] == ("havoc",)]
    for c in bounds:
        if c[3] != ln:
            rep.violation("R-C09-single-fetch", site(f), "the copy loop runs to %s, not to the checked length %s" % (fmt(c[3]), fmt(ln)), f["loc"], inst)
            return False
    # element reads: one sandbox read per iteration
    loop_reads = [e for e in evs if e.kind == "VREAD" and e.loop > 0 and not (e.extra or {}).get("local") and root_of(e.a) != THIS_OBJ]
    if len({fmt(e.a) for e in loop_reads}) != len(loop_reads):
        rep.violation("R-C09-single-fetch", site(f), "an element is fetched more than once per iteration", f["loc"], inst)
        return False
    if sn == "copy_and_verify_string":
        ctor = [e for e in evs if e.kind == "CALL" and q.short(e.a) == "basic_string" and (e.extra or {}).get("ctor") and len(e.b) >= 2 and not (isinstance(e.b[0], tuple) and e.b[0][:1] in (("decay",), ("strobj",)))]
        for e in ctor:
            # the bytes copied into the std::string start at a pointer value that was containment-checked: with the pointer itself in
            # sandbox memory, the value used for strlen (an earlier fetch) is NOT the value the range helper fetched and checked
            k_ = p.events.index(e)
            v_ = uncovered_fetch(p, e.b[0], k_)
            if v_ is not None:
                rep.violation("R-C09-single-fetch", site(f) + " [string source]", "std::string is built from %s: that pointer value comes from a fetch of the pointer cell which no containment check covers "
                              "(the range was checked for another fetch)" % fmt(e.b[0])[:80], e.loc, inst)
                return False
            if e.b[0] != C(0) and isinstance(e.b[0], tuple) and e.b[0][:1] == ("rd",) and e.b[1][0] in ("tmp", "var"):
                rep.violation("R-C09-single-fetch", site(f), "std::string is built with the (ptr) constructor, which re-scans sandbox memory for the terminator", e.loc, inst)
                return False
            if len(e.b) >= 2 and e.b[1][0] not in ("tmp", "var") and q.diff_const(ln, e.b[1]) != 1:
                rep.violation("R-C09-single-fetch", site(f), "std::string is built with length %s, expected checked length - 1" % fmt(e.b[1]), e.loc, inst)
                return False
        if allocs:
            # unique_ptr<char[]> path: forced terminator
            term = [e for e in evs if e.kind == "STORE" and e.b == C(0) and q.mentions(e.a, lambda x: isinstance(x, tuple) and x[:1] == ("ucall",) and q.short(x[2]) == "operator[]")]
            good = False
            for e in evs:
                if e.kind == "CALL" and q.short(e.a) == "operator[]" and e.c is not None and root_of(strip_casts(e.c)[1] if strip_casts(e.c)[:1] == ("addr",) else e.c)[:1] in (("tmp",), ("var",)):
                    cell = (e.extra or {}).get("ret")
                    idx = ((e.extra or {}).get("argvals") or e.b)[0]
                    if q.diff_const(ln, idx) == 1 and any(s.kind == "STORE" and s.a == cell and s.b == C(0) and s.loop == 0 for s in evs):
                        good = True
            if good:
                rep.ok("R-C09-terminator", site(f), "target[len-1] = 0 on the local buffer before the verifier", inst)
            else:
                rep.violation("R-C09-terminator", site(f), "the local copy is not forcibly NUL-terminated at index len-1 before the verifier runs", f["loc"], inst)
                return False
    return True


def ext_matches(ext, ln):
    """extent == k * ln for a constant element size k >= 1"""
    if ext == ln:
        return True
    if ext[0] == "lin" and ln[0] != "lin" and ext[1] == 0 and len(ext[2]) == 1 and ext[2][0][0] == ln:
        return True
    if ext[0] == "lin" and ln[0] == "lin":
        # k*(a+1) = k*a + k
        if len(ext[2]) == len(ln[2]) == 1 and ext[2][0][0] == ln[2][0][0] and ln[2][0][1] == 1 and ext[1] == ext[2][0][1] * ln[1]:
            return True
    return False


def check_struct(rep, db, f, inst):
    rule = "R-C09-struct"
    ps = Engine(db).run(f)
    vol = f["n"].startswith("rlbox::tainted_volatile::")
    for p in ps:
        vc = verifier_calls(p, root_param_names(f)[0])
        if len(vc) != 1:
            rep.violation(rule, site(f), "verifier not called exactly once", f["loc"], inst)
            return
        i, call = vc[0]
        a = call.b[0] if call.b else None
        if vol:
            if not local_object(p, a) or root_of(a) == THIS_OBJ:
                rep.violation(rule, site(f), "the verifier receives %s instead of a local tainted copy of the struct" % fmt(a), call.loc, inst)
                return
            later = [e for e in p.events[i + 1:] if e.kind == "VREAD" and not (e.extra or {}).get("local")]
            if later:
                rep.violation(rule, site(f), "sandbox memory is read after the verifier ran", later[0].loc, inst)
                return
            if not any(e.kind == "VREAD" and not (e.extra or {}).get("local") for e in p.events[:i]):
                rep.violation(rule, site(f), "nothing is copied out of sandbox memory before the verifier runs", f["loc"], inst)
                return
    rep.ok(rule, site(f), "struct converted into a local tainted copy before the verifier", inst)
