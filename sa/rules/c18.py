"""C18 - distinct sandboxes can be used from distinct threads without interference (shared-state discipline)."""
from .. import facts, q
from ..engine import Engine, Inconclusive, C, fmt, subterms
from ..common import site
from .c14 import is_global, refs_member

SB = "rlbox::rlbox_sandbox"
MUTATING = {"push_back", "emplace_back", "erase", "clear", "insert", "emplace", "operator=", "pop_back", "resize", "assign", "swap", "operator[]", "reserve", "shrink_to_fit"}
READING = {"begin", "end", "size", "empty", "cbegin", "cend", "find", "at", "data", "front", "back"}

# every variable with static storage duration that is allowed to exist in the headers, with the reason
GUARDED = {
    "sandbox_list": ("sandbox_list_lock", "list of live sandboxes of one backend type; guarded by the static shared lock"),
}


def local_statics(x, out):
    if isinstance(x, dict):
        if x.get("s") == "decl":
            for v in x.get("v") or []:
                if v.get("staticlocal") or v.get("tls"):
                    out.append(v)
        for v in x.values():
            if isinstance(v, (dict, list)):
                local_statics(v, out)
    elif isinstance(x, list):
        for v in x:
            local_statics(v, out)


def check_per_tu_state(rep, db, rule="R-C18-statics"):
    """a function with internal linkage defined in a header exists once per translation unit, and so does every static / thread_local
    object declared inside it: state the library believes to be one per process (or per thread) is silently duplicated"""
    n = 0
    for f in db.functions:
        if f.get("dep") or "body" not in f or not f.get("internal") or not (f.get("n") or "").startswith("rlbox"):
            continue
        vs = []
        local_statics(f["body"], vs)
        for v in vs:
            t = v.get("t") or {}
            if v.get("cx") or (t.get("const") and t.get("k") in ("int", "bool", "enum", "float", "ptr")):
                continue
            n += 1
            rep.violation(rule, "static local '%s' of %s [one copy per translation unit]" % (v.get("n"), f["n"]),
                          "%s has internal linkage (namespace-scope `static`), so each translation unit that includes the header gets its own copy of the %s object '%s' declared in it: "
                          "what one translation unit records there is invisible to code compiled in another" % (f["n"], "thread_local" if v.get("tls") else "static", v.get("n")), v.get("loc") or f["loc"], db.label)
    return n


def tls_address_escapes(rep, db):
    """R-C18-tls [escape]: the address of a thread_local object stored in a data member (default member initialiser or constructor
    initialiser): the member names the record of the thread that CONSTRUCTED the object, whichever thread uses it later"""
    tls = {v["d"] for v in db.statics if v.get("tls") and "d" in v}
    if not tls:
        return

    def addr_of_tls(x):
        if isinstance(x, dict):
            if x.get("k") == "un" and x.get("op") == "&":
                y = x.get("e")
                while isinstance(y, dict) and y.get("k") in ("paren", "icast", "cast") and "e" in y:
                    y = y["e"]
                if isinstance(y, dict) and y.get("k") in ("ref", "member") and y.get("d") in tls:
                    return y.get("n") or "?"
            for v in x.values():
                if isinstance(v, (dict, list)):
                    r = addr_of_tls(v)
                    if r:
                        return r
        elif isinstance(x, list):
            for v in x:
                r = addr_of_tls(v)
                if r:
                    return r
        return None
    for r in db.records:
        if r.get("dep") or not (r.get("n") or "").startswith("rlbox"):
            continue
        for fl in r.get("fields") or []:
            nm = addr_of_tls(fl.get("init")) if fl.get("init") is not None else None
            if nm:
                rep.violation("R-C18-tls", "member %s::%s [address of a thread_local]" % (r["n"], fl["n"]), "the data member '%s' is initialised with the address of the thread_local object '%s': every thread that uses this sandbox object "
                              "then reads and writes the record of the thread that constructed it (callbacks on one thread see another thread's sandbox; unsynchronised writes)" % (fl["n"], nm), fl.get("loc") or r["loc"], db.label)
    for f in db.functions:
        if f.get("dep") or f.get("kind") != "ctor" or not (f.get("n") or "").startswith("rlbox"):
            continue
        for ini in f.get("inits", []):
            nm = addr_of_tls(ini.get("e"))
            if nm:
                rep.violation("R-C18-tls", "%s [address of a thread_local]" % f["n"], "a constructor stores the address of the thread_local object '%s' in a data member" % nm, f["loc"], db.label)


def run(rep, tier):
    rep.rule("R-C18-statics", "every variable with static storage duration defined by the headers (static data members, namespace scope, function-local statics, embedder-TLS macro variables) "
             "is immutable (const/constexpr), thread_local, a lock, or listed as guarded by a named lock; anything else is shared mutable state between instances")
    rep.rule("R-C18-lockset", "every access to a guarded static lies inside the scope of a live guard on its lock: mutating member calls under the unique guard, reads (incl. range-for) under shared or unique")
    rep.rule("R-C18-atomic", "the per-sandbox status word is a std::atomic and both state transitions use compare-exchange (cross-checked with C14)")
    rep.rule("R-C18-tls", "the backends' per-thread context (current sandbox, last callback slot) is thread_local in both TLS configurations")
    backends = ["model32", "noop", "dylib", "noop_tls", "dylib_tls"] if tier == "quick" else ["model32", "model32gi", "noop", "dylib", "noop_tls", "dylib_tls", "noop_trans", "model32_trans", "model32_dbg"]
    dbs = facts.load_core(backends, ["INVOKE", "PTR"], thorough=(tier == "thorough"))
    n = {"statics": 0, "lockset": 0, "atomic": 0, "tls": 0}
    rep.rule("R-C18-publish", "a sandbox is visible to other threads (present in the process-wide list) only while its backend is initialised: appended after backend creation and the CREATED store, inside the unique "
             "list guard; removed, existence-checked, before the backend is destroyed (shared analysis with C14's R-C14-registry): published earlier, another thread's example lookup reads a half-built backend without a lock")
    from . import c14 as _c14
    from ..report import RuleView
    for db in dbs:
        for f in db.functions:
            if f["dep"] or "body" not in f or f["n"] not in ("rlbox::rlbox_sandbox::create_sandbox", "rlbox::rlbox_sandbox::destroy_sandbox"):
                continue
            inst_ = "%s | %s" % (db.label, f["full"][:150])
            try:
                (_c14.check_create if f["sn"] == "create_sandbox" else _c14.check_destroy)(RuleView(rep, {"R-C14-registry": "R-C18-publish"}), db, f, inst_, {})
            except Inconclusive as ex:
                rep.inconclusive("R-C18-publish", site(f), str(ex), inst_)
    for db in dbs:
        check_per_tu_state(rep, db)
        tls_address_escapes(rep, db)
    for db in dbs:
        rep.units.append(db.label)
        label = db.label
        for v in db.statics:
            if v.get("dep"):
                continue
            n["statics"] += 1
            t = v.get("t") or {}
            tn = t.get("c") or ""
            name = v["sn"]
            inst = "%s | %s" % (label, v["n"][:140])
            vsite = "static " + strip(v["n"])
            if v.get("cx") or (t.get("const") and t.get("k") in ("int", "bool", "enum", "float", "ptr")):
                rep.ok("R-C18-statics", vsite, "immutable", inst, nontrivial=False)
            elif v.get("tls"):
                rep.ok("R-C18-statics", vsite, "thread_local", inst)
                if "thread_data" in name or "thread_info" in name:
                    n["tls"] += 1
                    rep.ok("R-C18-tls", vsite, "per-thread backend context is thread_local", inst)
            elif "mutex" in tn or "lock" in tn.lower():
                rep.ok("R-C18-statics", vsite, "a lock", inst, nontrivial=False)
            elif name in GUARDED:
                rep.ok("R-C18-statics", vsite, "guarded by %s (%s)" % GUARDED[name], inst)
            else:
                if "thread_data" in name or "thread_info" in name:
                    rep.violation("R-C18-tls", vsite, "the backend's per-thread context '%s' is not thread_local: callbacks on one thread would see another thread's sandbox" % name, v["loc"], inst)
                else:
                    rep.violation("R-C18-statics", vsite, "mutable static '%s' of type %s is shared between all sandbox instances and threads without a lock" % (name, tn[:80]), v["loc"], inst)
        # ---- lock sets
        for f in db.functions:
            if f["dep"] or "body" not in f:
                continue
            for gname, (lockname, _why) in GUARDED.items():
                if refs_member(f["body"], gname):
                    n["lockset"] += 1
                    check_lockset(rep, db, f, "%s | %s" % (label, f["full"][:140]), gname, lockname)
        # ---- atomic status
        for r in db.records:
            if r["n"] == SB and not r["dep"]:
                for fl in r["fields"]:
                    if fl["n"] == "sandbox_created":
                        n["atomic"] += 1
                        if "std::atomic<" in ((fl["t"] or {}).get("c") or ""):
                            rep.ok("R-C18-atomic", SB + "::sandbox_created", "std::atomic", "%s | %s" % (label, r["n_full"][:80]), nontrivial=False)
                        else:
                            rep.violation("R-C18-atomic", SB + "::sandbox_created", "the status word is a plain %s, not an atomic" % (fl["t"] or {}).get("c"), r["loc"], label)
        if not label.startswith("model32") and "INVOKE" in label:
            # embedder-TLS configuration: the accessor must return the address of a thread_local
            pass
    rep.require(n["statics"] >= 10, "only %d statics seen" % n["statics"])
    rep.require(n["lockset"] >= 6, "only %d functions touching guarded statics analysed" % n["lockset"])
    rep.require(n["atomic"] >= 3, "status word not found")
    rep.require(n["tls"] >= 4, "per-thread backend context variables not found (%d)" % n["tls"])
    # positive example: the rule must recognise an unguarded mutable static
    pos = {"sn": "vb_positive_example", "t": {"c": "int", "k": "int"}, "tls": False, "cx": False}
    flagged = not (pos.get("cx") or pos["t"].get("const") or pos.get("tls") or "mutex" in pos["t"]["c"] or pos["sn"] in GUARDED)
    rep.require(flagged, "positive example (plain static int) is not flagged by R-C18-statics")
    rep.extra["instances"] = n
    rep.assumptions += ["per-instance state is confined to its thread (the property's own premise); races inside third-party backends are out of scope",
                        "schedules are not enumerated: race freedom of the shared state follows from the lock-set discipline"]


def strip(n):
    from ..facts import strip_targs
    return strip_targs(n)


def check_lockset(rep, db, f, inst, gname, lockname):
    rule = "R-C18-lockset"
    try:
        ps = Engine(db).run(f)
    except Inconclusive as ex:
        rep.inconclusive(rule, site(f), str(ex), inst)
        return
    for p in ps:
        held = []  # stack of (tmpobj, mode)
        session = 0
        obtained = {}  # value obtained from the guarded container -> session in which it was obtained
        for e in p.events:
            # ---- atomicity: a position/element obtained under one guard must not be used under another
            if e.kind == "CALL" and held and (is_global(e.c, "::" + gname) or any(is_global(a, "::" + gname) for a in e.b)):
                for a in list(e.b) + [x for x in ((e.extra or {}).get("argvals") or [])]:
                    for t, sess in obtained.items():
                        if sess != session and q.mentions(a, lambda x: x == t or (isinstance(x, tuple) and x[:1] in (("var",), ("tmp",)) and p.state.mem.get(("copyof", x)) == t)):
                            rep.violation(rule, site(f) + " [%s atomicity]" % gname, "a position/element of %s obtained under one guard is used after that guard was released and another taken "
                                          "(another thread may have modified the container in between: the iterator is stale)" % gname, e.loc or f["loc"], inst)
                            return
            if e.kind == "CALL":
                def src_session(a):
                    ss = [sess for t, sess in obtained.items() if q.mentions(a, lambda x: x == t)]
                    return min(ss) if ss else None
                srcs = [src_session(a) for a in e.b]
                srcs = [x for x in srcs if x is not None]
                r = (e.extra or {}).get("ret")
                if held and is_global(e.c, "::" + gname):
                    if r is not None and r != ("void",):
                        obtained[r] = session
                elif srcs:
                    # derived from a position/element of the guarded container: result and target object carry the origin
                    if r is not None and r != ("void",):
                        obtained[r] = min(srcs)
                    if isinstance(e.c, tuple) and e.c[:1] == ("addr",):
                        obtained[e.c[1]] = min(srcs)
            if e.kind == "CALL" and q.short(e.a) in q.ALL_GUARDS and any(is_global(a, "::" + lockname) for a in e.b):
                mode = "shared" if q.short(e.a) in q.SHARED_GUARDS else "unique"
                held.append(((e.extra or {}).get("ret"), mode))
                session += 1
                continue
            if e.kind == "UNLOCK":
                held = [h for h in held if h[0] != e.a]
                continue
            touches = False
            mut = False
            if e.kind == "CALL":
                if is_global(e.c, "::" + gname):
                    touches = True
                    nm = q.short(e.a)
                    mut = nm in MUTATING or nm not in READING
                elif any(is_global(a, "::" + gname) for a in e.b):
                    touches = True
                    mut = True  # passed by reference to an unknown function
            elif e.kind == "RANGE" and is_global(e.a, "::" + gname):
                touches = True
            elif e.kind == "STORE" and q.mentions(e.a, lambda x: is_global(x, "::" + gname)):
                touches, mut = True, True
            if not touches:
                continue
            modes = [m for _o, m in held]
            if not modes:
                rep.violation(rule, site(f) + " [%s]" % gname, "%s is accessed (%s) outside any guard on %s" % (gname, e.kind + " " + (q.short(e.a) if e.kind == "CALL" else ""), lockname), e.loc or f["loc"], inst)
                return
            if mut and "unique" not in modes:
                rep.violation(rule, site(f) + " [%s]" % gname, "%s is modified (%s) under a shared guard only" % (gname, q.short(e.a) if e.kind == "CALL" else e.kind), e.loc or f["loc"], inst)
                return
    rep.ok(rule, site(f) + " [%s]" % gname, "every access inside a live guard on %s (%d paths)" % (lockname, len(ps)), inst)
