"""C07 - sandbox-memory accesses use exactly the bytes and encoding of the sandbox ABI (footprint rule)."""
from .. import facts, q, abi
from ..engine import Engine, Inconclusive, C, fmt, subterms
from ..common import site
from .ops import strip_casts
from . import ops
from .c09 import root_of
from . import c10
from ..report import RuleView

THIS_OBJ = ("deref", ("this",))
BYTE_OPS = {"memcpy", "memset", "memcmp", "memmove", "strlen", "basic_string"}


def is_sandbox_ptr(t):
    """pointer value derived from a wrapper's raw pointer or from the backend's translation / allocation"""
    for x in subterms(t):
        if isinstance(x, tuple) and x:
            if x[0] == "rd" and isinstance(x[1], tuple) and x[1][:1] == ("fld",) and x[1][2] == "data":
                return True
            if x[0] in ("call", "ucall"):
                nm = q.short(x[1] if x[0] == "call" else x[2])
                if nm.startswith("impl_get_unsandboxed_pointer") or nm in ("impl_malloc_in_sandbox", "impl_grant_access"):
                    return True
    return False


def run(rep, tier):
    rep.rule("W-C07-footprint", "for every instantiated tainted_volatile<T> the storage field is volatile-qualified and has exactly the size and alignment the checker's ABI model prescribes for T (scalars, pointers, arrays)")
    rep.rule("R-C07-typed-access", "inside the analysed headers every typed load or store whose address derives from a wrapper's raw pointer / a backend translation uses an access type whose size under the sandbox ABI "
             "equals its host size in that instantiation, i.e. goes through guest-typed storage (tainted_volatile::data / guest struct fields) and never through the application's `long`/pointer types; byte-wise libc operations are C10's")
    rep.rule("R-C07-loadstore", "tainted_volatile::get_raw_value reads its own storage and converts TO_APPLICATION; every operator= branch writes sandbox memory only through its own storage")
    rep.rule("R-C07-decode", "copy_and_verify on a pointer reads its single pointee through the guest-typed wrapper (width, signedness and encoding of the sandbox ABI, then the checked conversion); it never copies the "
             "guest bytes into the application object when the two representations differ")
    rep.rule("R-C07-range", "a bulk load (copy_and_verify_range, copy_and_verify on a pointer, copy_and_verify_buffer_address, unverified_safe_pointer_because) range-checks exactly the bytes it decodes - "
             "(count-1)*guest stride + guest width - so that objects ending at the last byte of sandbox memory load, and nothing beyond the checked bytes is decoded (shared analysis with C10's R-C10-elem)")
    backends = ["model32"] if tier == "quick" else ["model32", "model32gi"]
    dbs = facts.load_core(backends, ["PTR", "INVOKE", "ARR"], thorough=(tier == "thorough"))
    n = {"footprint": 0, "fns": 0, "accesses": 0, "loadstore": 0, "range": 0}
    view = RuleView(rep, {"R-C10-elem": "R-C07-range"})
    rep.rule("R-C07-encoding", "pointers stored in sandbox memory are decoded / encoded relative to the sandbox they live in: every example-based translation in the load / store / struct conversion paths receives the "
             "address of the sandbox-memory object itself (shared analysis with C04's R-C04-example)")
    from . import c04 as _c04
    for db in dbs:
        for f in db.functions:
            if not f["dep"] and "body" in f and _c04.is_example_user(f):
                try:
                    _c04.check_example(rep, db, f, "%s | %s" % (db.label, f["full"][:150]), rule="R-C07-encoding")
                except Inconclusive as ex:
                    rep.inconclusive("R-C07-encoding", site(f), str(ex), "%s | %s" % (db.label, f["full"][:150]))
    rep.rule("R-C07-nullstore", "storing nullptr through a tainted reference is one store of the integer 0 into the stored (guest-width) representation - not a byte fill sized by the application's pointer type, which "
             "also clears the bytes after a narrower guest pointer (shared analysis with C04's R-C04-nullstore)")
    n_null = 0
    for db in dbs:
        for f in db.functions:
            if not f["dep"] and "body" in f and f["n"] == "rlbox::tainted_volatile::operator=" and f["params"] and "nullptr_t" in ((f["params"][0]["t"] or {}).get("c") or ""):
                try:
                    _c04.check_example(RuleView(rep, {"R-C04-nullstore": "R-C07-nullstore"}), db, f, "%s | %s" % (db.label, f["full"][:150]))
                    n_null += 1
                except Inconclusive as ex:
                    rep.inconclusive("R-C07-nullstore", site(f), str(ex), "%s | %s" % (db.label, f["full"][:150]))
    rep.require(n_null >= 2, "only %d nullptr stores analysed (floor 2)" % n_null)
    rep.rule("R-C07-route", "every pointer (and array-of-pointers) instantiation of convert_type_non_class encodes each element exactly once: the element loop runs i = 0 .. N-1 over the array extent, not over a "
             "byte-size quotient that differs between guest and host pointer widths (shared analysis with C04's R-C04-route; seed C07-h)")
    n_route = 0
    for db in dbs:
        for f in db.functions:
            if not f["dep"] and "body" in f and f["n"] == "rlbox::detail::convert_type_non_class":
                try:
                    if _c04.check_route(RuleView(rep, {"R-C04-route": "R-C07-route"}), db, f, "%s | %s" % (db.label, f["full"][:150])):
                        n_route += 1
                except Inconclusive as ex:
                    rep.inconclusive("R-C07-route", site(f), str(ex), "%s | %s" % (db.label, f["full"][:150]))
    rep.require(n_route >= 4, "only %d pointer conversions analysed (floor 4)" % n_route)
    for db in dbs:
        rep.units.append(db.label)
        for name in ("rlbox::tainted_base_impl::copy_and_verify_range", "rlbox::tainted_base_impl::copy_and_verify_buffer_address", "rlbox::tainted_base_impl::unverified_safe_pointer_because"):
            for f in db.insts(name):
                inst = "%s | %s" % (db.label, f["full"][:160])
                try:
                    for p in q.paths(db, f):
                        c10.analyse_path(view, f, p, inst, None)
                    n["range"] += 1
                except Inconclusive as ex:
                    rep.inconclusive("R-C07-range", site(f), str(ex), inst)
        a = abi.abi_of(db.label)
        # ---- decoding of a single pointee (copy_and_verify on a pointer): through the guest-typed wrapper, never a byte copy
        for f in db.insts("rlbox::tainted_base_impl::copy_and_verify"):
            T = ops.class_T(f) or {}
            if T.get("k") != "ptr" or not T.get("pte"):
                continue
            inst = "%s | %s" % (db.label, f["full"][:160])
            try:
                host = abi.size_align(db, T["pte"], "host")[0]
                guest = abi.size_align(db, T["pte"], a)[0]
            except abi.Unknown:
                continue
            try:
                ps_ = q.paths(db, f)
            except Inconclusive as ex:
                rep.inconclusive("R-C07-decode", site(f), str(ex), inst)
                continue
            bulk = [e for p_ in ps_ for e in p_.events if e.kind == "CALL" and q.short(e.a) in ("memcpy", "memmove", "__builtin_memcpy") and len(e.b) >= 2 and
                    q.mentions(e.b[1], lambda x: x == ("fld", THIS_OBJ, "data") or (isinstance(x, tuple) and x[:1] == ("vrd",)))]
            if bulk and host != guest:
                rep.violation("R-C07-decode", site(f), "the pointee ('%s': %d bytes in the sandbox ABI, %d in the application's) is copied byte-wise out of sandbox memory into an application object instead of being "
                              "loaded through the guest-typed wrapper and converted: the value is not decoded (e.g. a negative 32-bit guest long is zero-extended)" % (T["pte"], guest, host), bulk[0].loc, inst)
            else:
                rep.ok("R-C07-decode", site(f), "pointee loaded through the guest-typed wrapper" if not bulk else "byte copy between identical representations", inst, nontrivial=host != guest)
        # ---- footprint
        for r in db.records:
            if r["dep"] or r["n"] != "rlbox::tainted_volatile" or "size" not in r:
                continue
            tt = r.get("targt") or []
            if not tt or not tt[0]:
                continue
            X = tt[0]
            data = [fl for fl in r["fields"] if fl["n"] == "data"]
            inst = "%s | tainted_volatile<%s>" % (db.label, X.get("c"))
            if not data:
                continue  # struct specialisations: checked by C08
            try:
                want = abi.size_align(db, X.get("c"), a)
            except abi.Unknown:
                continue
            n["footprint"] += 1
            dt = data[0]["t"] or {}
            vol = dt.get("vol") or "volatile" in (dt.get("c") or "")
            if (dt.get("sz"), dt.get("al")) != want or (r["size"], r["align"]) != want:
                rep.violation("W-C07-footprint", "rlbox::tainted_volatile", "storage of tainted_volatile<%s> is %s (%s bytes, align %s); the sandbox ABI prescribes %s" % (X.get("c"), dt.get("c"), dt.get("sz"), dt.get("al"), want), r["loc"], inst)
            elif not vol:
                rep.violation("W-C07-footprint", "rlbox::tainted_volatile [volatile]", "storage of tainted_volatile<%s> is not volatile-qualified (%s)" % (X.get("c"), dt.get("c")), r["loc"], inst)
            else:
                rep.ok("W-C07-footprint", "rlbox::tainted_volatile", "%s stored as %s: %s bytes" % (X.get("c"), dt.get("c"), want[0]), inst)
        # ---- typed accesses in every public entry point (inlined)
        for f in db.functions:
            if f["dep"] or "body" not in f or not f["n"].startswith("rlbox::"):
                continue
            if f.get("access") == 2 and not f["n"].startswith("rlbox::tainted_volatile::") and not f["n"].startswith("rlbox::tainted::"):
                continue
            if f["sn"].startswith("impl_") or f.get("lambda"):
                continue
            inst = "%s | %s" % (db.label, f["full"][:150])
            try:
                ps = q.paths(db, f)
            except Inconclusive as ex:
                continue
            n["fns"] += 1
            bad = None
            cnt = 0
            for p in ps:
                for e in p.events:
                    if e.kind in ("VREAD", "MREAD") or (e.kind == "STORE" and not (e.extra or {}).get("rec")):
                        lv = e.a
                        r0 = root_of(lv)
                        if not (isinstance(r0, tuple) and r0[:1] == ("deref",)):
                            continue
                        if r0 == THIS_OBJ:
                            cls = f["n"].split("::")[1] if f["n"].count("::") >= 2 else ""
                            if cls != "tainted_volatile":
                                continue
                        elif not is_sandbox_ptr(r0[1]):
                            continue
                        ty = (e.extra or {}).get("t") or {}
                        if ty.get("k") not in ("int", "bool", "enum", "float", "ptr", "fnptr"):
                            continue
                        cnt += 1
                        # accesses through guest-typed storage (.data of a wrapper, fields of a guest struct) are sized by
                        # construction (W-C07-footprint / C08 layout); a *direct* dereference of the raw pointer uses the
                        # application's pointee type and must have the same size under the sandbox ABI
                        direct = lv[0] == "deref" or (lv[0] == "idx" and lv[1][0] == "deref")
                        if not direct:
                            continue
                        try:
                            g = abi.size_align(db, ty.get("u") or ty.get("c"), a)[0]
                        except abi.Unknown:
                            continue
                        if g != ty.get("sz"):
                            bad = (e, ty, g)
                            break
                if bad:
                    break
            n["accesses"] += cnt
            if bad:
                e, ty, g = bad
                st = q.stack_site(e, skip_detail=False) or site(f)
                rep.violation("R-C07-typed-access", st, "%s of sandbox memory at %s with the application type '%s' (%d bytes); under the sandbox ABI this object occupies %d bytes" % (
                    "load" if e.kind != "STORE" else "store", fmt(e.a)[:100], ty.get("u"), ty.get("sz"), g), e.loc, inst, {"entry": site(f)})
            elif cnt:
                rep.ok("R-C07-typed-access", site(f), "%d typed sandbox accesses, all guest-sized" % cnt, inst)
            # ---- load/store discipline of tainted_volatile
            if f["n"] == "rlbox::tainted_volatile::operator=":
                n["loadstore"] += 1
                okls = True
                for p in ps:
                    for e in p.events:
                        if e.kind == "STORE" and isinstance(root_of(e.a), tuple) and root_of(e.a)[:1] == ("deref",):
                            r0 = root_of(e.a)
                            if r0 != THIS_OBJ and is_sandbox_ptr(r0[1]):
                                okls = False
                                rep.violation("R-C07-loadstore", site(f), "assignment writes sandbox memory at %s, not through its own storage" % fmt(e.a)[:100], e.loc, inst)
                                break
                    if not okls:
                        break
                if okls:
                    # a scalar taken from ANOTHER sandbox object of a different type must be read with its own width and encoding and
                    # converted - never by copying sizeof(destination) raw bytes from the source's address
                    T_ = ((f.get("ctargt") or [None])[0]) or {}     # tainted_volatile<T, T_Sbx>
                    from .c11 import unwrapped_type_name
                    U_ = unwrapped_type_name(f["params"][0].get("t")) if f["params"] else ""
                    bulk_ = [e for p in ps for e in p.events if e.kind == "CALL" and q.short(e.a) in ("memcpy", "memmove", "__builtin_memcpy")]
                    if bulk_ and T_.get("k") in ("int", "bool", "enum", "float") and "tainted_volatile" in ((f["params"][0].get("t") or {}).get("c") or ""):
                        try:
                            st_, su_ = abi.size_align(db, T_.get("u") or T_.get("c"), a)[0], abi.size_align(db, U_, a)[0]
                        except abi.Unknown:
                            st_ = su_ = None
                        if st_ is not None and (st_ != su_ or (T_.get("u") or T_.get("c")) != U_):
                            okls = False
                            rep.violation("R-C07-loadstore", site(f) + " [byte copy between objects of different types]", "a '%s' in sandbox memory (%d bytes) is assigned from a '%s' in sandbox memory (%d bytes) by copying raw "
                                          "bytes: the source is not read with the width and encoding of ITS type (neighbouring bytes become part of the value, no sign extension, no range check)" % (
                                              T_.get("u") or T_.get("c"), st_, U_, su_), bulk_[0].loc, inst)
                if okls:
                    rep.ok("R-C07-loadstore", site(f), "writes only its own storage", inst)
            if f["n"] == "rlbox::tainted_volatile::get_raw_value" and any((fl.get("n") == "data") for fl in (db.rec_by_id.get(f.get("rid")) or {}).get("fields", [])):
                n["loadstore"] += 1
                good = all(any(e.kind == "VREAD" and (e.a == ("fld", THIS_OBJ, "data") or (e.a[0] == "idx" and root_of(e.a) == THIS_OBJ)) for e in p.events) or
                           any(e.kind == "CALL" and q.short(e.a) == "memcpy" for e in p.events) for p in ps) and bool(ps)
                if good:
                    rep.ok("R-C07-loadstore", site(f), "reads its own storage", inst)
                else:
                    rep.violation("R-C07-loadstore", site(f), "get_raw_value does not read the wrapper's own storage", f["loc"], inst)
    rep.require(n["footprint"] >= 40, "only %d tainted_volatile layouts (floor 40)" % n["footprint"])
    rep.require(n["fns"] >= 800, "only %d entry functions analysed (floor 800)" % n["fns"])
    rep.require(n["accesses"] >= 150, "only %d typed sandbox accesses seen (floor 150)" % n["accesses"])
    rep.require(n["loadstore"] >= 100, "only %d load/store members analysed" % n["loadstore"])
    rep.require(n["range"] >= 16, "only %d bulk-load instantiations analysed for R-C07-range (floor 16)" % n["range"])
    rep.extra["instances"] = n
    rep.assumptions += ["the compiler emits exactly sizeof(type) bytes for a typed volatile access (trusted)",
                        "the rule is decided under the foreign-ABI model backend, where guest and host widths differ; on the bundled backends they coincide"]
