"""C10 - bulk memory operations never straddle or leave the sandbox."""
from .. import facts, q
from ..engine import root_param_names, Inconclusive, lin, mul, C, is_const, fmt, cmp_, subterms
from ..common import site

ENTRIES = [
    "rlbox::memset", "rlbox::memcpy", "rlbox::memcmp",
    "rlbox::tainted_base_impl::copy_and_verify_range", "rlbox::tainted_base_impl::copy_and_verify_string",
    "rlbox::tainted_base_impl::copy_and_verify_buffer_address", "rlbox::tainted_base_impl::unverified_safe_pointer_because",
    "rlbox::copy_memory_or_grant_access", "rlbox::copy_memory_or_deny_access",
]
FLOORS = {"rlbox::memset": 8, "rlbox::memcpy": 8, "rlbox::memcmp": 8, "rlbox::tainted_base_impl::copy_and_verify_range": 8,
          "rlbox::tainted_base_impl::copy_and_verify_string": 1, "rlbox::tainted_base_impl::copy_and_verify_buffer_address": 8,
          "rlbox::tainted_base_impl::unverified_safe_pointer_because": 8, "rlbox::copy_memory_or_grant_access": 1, "rlbox::copy_memory_or_deny_access": 1}
BYTE_SINKS = {"memset": [(0, 2)], "memcpy": [(0, 2), (1, 2)], "memmove": [(0, 2), (1, 2)], "memcmp": [(0, 2), (1, 2)],
              "__builtin_memcpy": [(0, 2), (1, 2)], "__builtin_memset": [(0, 2)], "__builtin_memcmp": [(0, 2), (1, 2)],
              "strncpy": [(0, 2), (1, 2)], "bcopy": [(0, 2), (1, 2)]}
MAXU64 = (1 << 64) - 1


def fresh_alloc_size(p):
    """if p is the result of malloc/new of a size, return that size term"""
    if isinstance(p, tuple) and p and p[0] in ("ucall", "call"):
        name = q.short(p[2] if p[0] == "ucall" else p[1])
        args = q.call_args(p)
        if name in ("malloc", "operator new", "calloc") and args:
            return args[0]
    return None


def product_parts(n):
    """n == k*count (+0) -> (k, count) for a single-atom linear term"""
    if n[0] == "lin" and n[1] == 0 and len(n[2]) == 1:
        atom, coef = n[2][0]
        return coef, atom
    return None


def const_upper_bound(conds, t):
    best = None
    for op, u in q.upper_bounds(conds, t):
        if is_const(u):
            v = u[1] - (1 if op == "<" else 0)
            best = v if best is None else min(best, v)
    return best


def no_wrap_guard(conds, ptr, n):
    """an abort check that start+n-1 did not wrap below start (possibly `n == 0 ||` in front)"""
    end = lin("-", lin("+", ptr, n), C(1))
    want = cmp_("<=", ptr, end)
    # the same fact stated on the other side of the inequality: n-1 <= UINTPTR_MAX - start
    want2 = cmp_("<=", lin("-", n, C(1)), lin("-", C(MAXU64), ptr))
    for c in conds:
        if c == want or c == want2:
            return True
        if c[0] == "or" and (want in (c[1], c[2]) or want2 in (c[1], c[2])) and cmp_("==", n, C(0)) in (c[1], c[2]):
            return True
    return False


def product_checked_by_division(conds, n):
    """the classic exactness test of a modular product: (count*k)/k == count holds iff count*k did not wrap"""
    pp = product_parts(n)
    if not pp:
        return False
    k, cnt = pp
    for c in conds:
        if c[0] == "cmp" and c[1] == "==":
            for a, b in ((c[2], c[3]), (c[3], c[2])):
                if b == cnt and isinstance(a, tuple) and a[:2] == ("bin", "/") and a[2] == n and a[3] == C(k):
                    return True
    return False


def extent_bounded(conds, n, ptr=None):
    """R-C10-extent: the byte extent cannot wrap: bounded by the sandbox size, a constant, or a strlen of live memory"""
    if is_const(n):
        return True, "constant"
    if ptr is not None and no_wrap_guard(conds, ptr, n) and product_checked_by_division(conds, n):
        return True, "count*size verified by division and start+n-1 >= start checked"
    if ptr is not None and no_wrap_guard(conds, ptr, n):
        pp = product_parts(n)
        if pp is None or pp[0] == 1:
            return True, "start+n-1 >= start checked"
        cb = const_upper_bound(conds, pp[1])
        if cb is not None and cb * pp[0] <= MAXU64:
            return True, "count <= %d (count*%d cannot wrap) and start+n-1 >= start checked" % (cb, pp[0])
        if q.bounded_by_total(conds, pp[1]):
            return True, "count <= total memory and start+n-1 >= start checked"
    if q.bounded_by_total(conds, n):
        return True, "n <= total memory"
    cb = const_upper_bound(conds, n)
    if cb is not None and cb <= MAXU64:
        return True, "n <= %d" % cb
    pp = product_parts(n)
    if pp:
        k, cnt = pp
        if q.bounded_by_total(conds, cnt):
            return True, "count <= total memory"
        cb = const_upper_bound(conds, cnt)
        if cb is not None and cb * k <= MAXU64:
            return True, "count <= %d so count*%d cannot wrap" % (cb, k)
    # strlen(p) + 1 of memory that really contains the terminator
    if n[0] == "lin" and len(n[2]) == 1 and n[2][0][1] == 1 and q.is_call(n[2][0][0], "strlen") and 0 <= n[1] <= 1:
        return True, "length of an existing NUL-terminated string"
    return False, ""


def analyse_path(rep, f, p, inst, seen):
    p = q.sequential_view(p)  # C10 quantifies over inputs, not schedules: re-reading an unmodified sandbox cell yields the same value
    evs = p.events
    entry = site(f)

    def demand(i, ptr, n, what, loc, allow_slack=0):
        conds = q.conds_before(p, i)
        key = (what, fmt(ptr), fmt(n))
        # application-side scratch buffer allocated with exactly this size
        fa = fresh_alloc_size(ptr)
        if fa is not None:
            alloc_name = q.short(ptr[2] if ptr[0] == "ucall" else ptr[1])
            if alloc_name in ("malloc", "calloc") and not q.nonnull(conds, ptr):
                # malloc may fail: "null starts never proceed" holds for the application-side buffer too
                rep.violation("R-C10-sink", entry + " [null start]", "%s proceeds with the result of %s(%s) although it was not tested for allocation failure (a null start)" % (what, alloc_name, fmt(fa)), loc, inst)
                return
            if fa == n:
                rep.ok("R-C10-sink", entry, "%s: operand %s is a fresh allocation of exactly %s bytes" % (what, fmt(ptr), fmt(n)), inst)
            else:
                rep.violation("R-C10-sink", entry, "%s uses %s bytes of a buffer allocated with %s bytes" % (what, fmt(n), fmt(fa)), loc, inst)
            return
        if q.is_null_assumed(conds, ptr) or ptr == C(0):
            rep.violation("R-C10-sink", entry + " [null start]", "%s proceeds with a null start address (operand %s)" % (what, fmt(ptr)), loc, inst)
            return
        if not q.nonnull(conds, ptr):
            rep.violation("R-C10-sink", entry + " [null start]", "%s: no dominating non-null check of the start %s" % (what, fmt(ptr)), loc, inst)
            return
        ext = [x for x in q.established_extents(conds, ptr) if not has_loopvar(x)] or q.established_extents(conds, ptr)
        if not ext:
            rep.violation("R-C10-sink", entry, "%s: no dominating is_in_same_sandbox(start, start+n-1) check for operand %s" % (what, fmt(ptr)), loc, inst)
            return
        good = None
        for e in ext:
            d = q.diff_const(e, n)
            if d is not None and 0 <= d <= allow_slack:
                good = e
        if good is None:
            # equal under this path's conditions: the path fixed the size to a constant (`if (size == 0) ...`)
            n_here = q.under_equalities(conds, n)
            if n_here != n:
                for e in ext:
                    d = q.diff_const(q.under_equalities(conds, e), n_here)
                    if d is not None and 0 <= d <= allow_slack:
                        good = e
        if good is None:
            # find the function that established the (wrong) extent
            est = establishing_event(p, i, ptr)
            st = (q.stack_site(est) if est else None) or entry
            rep.violation("R-C10-elem", st, "%s touches %s bytes from %s but the range that was checked is %s bytes" % (
                what, fmt(n), fmt(ptr), " / ".join(fmt(e) for e in ext)), loc, inst, {"entry": entry})
            return
        rep.ok("R-C10-elem", entry, "%s: the checked range [start, start+%s-1] is exactly the bytes touched" % (what, fmt(n)), inst)
        ok, why = extent_bounded(conds, good, ptr)
        if not ok:
            est = establishing_event(p, i, ptr)
            st = (q.stack_site(est) if est else None) or entry
            rep.violation("R-C10-extent", st, "extent %s is neither bounded by the sandbox size nor proven non-wrapping before start+extent-1 is computed" % fmt(good), loc, inst, {"entry": entry})
            return
        rep.ok("R-C10-sink", entry, "%s: start %s non-null, [start, start+%s-1] in one sandbox, extent bounded (%s)" % (what, fmt(ptr), fmt(n), why), inst)

    for i, e in enumerate(evs):
        if e.kind == "CALL":
            nm = q.short(e.a)
            if nm in BYTE_SINKS and len(e.b) >= 3:
                for pi, ni in BYTE_SINKS[nm]:
                    demand(i, e.b[pi], e.b[ni], "%s operand %d" % (nm, pi), e.loc)
            elif nm == "basic_string" and e.extra and e.extra.get("ctor") and len(e.b) >= 2 and isinstance(e.b[0], tuple) and e.b[0][0] not in ("decay", "strobj", "str", "tmp") and e.b[1][0] != "tmp":
                demand(i, e.b[0], e.b[1], "std::string(ptr,len)", e.loc, allow_slack=1)
            elif nm in ("impl_grant_access", "impl_deny_access") and len(e.b) >= 2:
                T = None
                for tt in (f.get("targt") or []):
                    if tt and tt.get("k") not in ("rec",) and "sz" in tt:
                        T = tt
                esz = (T or {}).get("sz")
                if esz is None:
                    rep.inconclusive("R-C10-sink", entry, "element size of grant/deny unknown", inst)
                else:
                    demand(i, e.b[0], mul(C(esz), e.b[1]), "%s of %s elements of %d bytes" % (nm, fmt(e.b[1]), esz), e.loc)
            elif nm == "strlen" and e.b:
                conds = q.conds_before(p, i)
                if q.nonnull(conds, e.b[0]):
                    rep.ok("R-C10-sink", entry, "strlen on non-null start %s" % fmt(e.b[0]), inst)
                else:
                    rep.violation("R-C10-sink", entry + " [null start]", "strlen on a possibly null start", e.loc, inst)
        elif e.kind == "VREAD" and e.loop > 0:
            # element loop reading sandbox memory: base + stride*i, width = sizeof(read type)
            lv = e.a
            addr = lv_address(lv)
            if addr is None:
                continue
            hv = [(a, c) for a, c in (addr[2] if addr[0] == "lin" else ()) if a[0] == "havoc"]
            if len(hv) != 1:
                continue
            ivar, stride = hv[0]
            base = lin("-", addr, mul(C(stride), ivar))
            width = ((e.extra or {}).get("t") or {}).get("sz")
            conds = q.conds_before(p, i)
            bound = [c[3] for c in conds if c[0] == "cmp" and c[1] == "<" and c[2] == ivar]
            if width is None or not bound:
                rep.inconclusive("R-C10-elem", entry, "cannot read width/bound of the element loop at %s" % e.loc, inst)
                continue
            cnt = bound[0]
            need = lin("+", lin("-", mul(C(stride), cnt), C(stride)), C(width))
            demand(i, base, need, "element loop (stride %d, width %d, count %s)" % (stride, width, fmt(cnt)), e.loc)
    # hand-back of raw pointers
    if f["sn"] == "unverified_safe_pointer_because":
        for i, e in enumerate(evs):
            if e.kind == "RET" and (e.extra or {}).get("depth") == 0:
                r = e.a
                conds = q.conds_before(p, i)
                if q.is_null_assumed(conds, r) or r == C(0):
                    rep.ok("R-C10-sink", entry, "null passthrough", inst, nontrivial=False)
                    continue
                T = (f.get("ctargt") or [None, None])[1] or {}
                psz = T.get("ptesz")
                if T.get("pteu") == "void" or psz is None:
                    psz = 1
                cnt = ("p", f["params"][0]["n"])
                demand(i, r, mul(C(psz), cnt), "raw pointer handed back with %s elements of %d bytes (%s)" % (fmt(cnt), psz, T.get("pte")), f["loc"])
    if f["sn"] == "copy_and_verify_buffer_address":
        for i, e in enumerate(evs):
            vn = ("pobj", root_param_names(f)[0])  # the verifier is the first parameter, whatever it is called
            if e.kind == "CALL" and e.c is not None and (e.c == vn or e.c == ("addr", vn)):
                r = e.b[0] if e.b else None
                if r is None:
                    continue
                conds = q.conds_before(p, i)
                if q.is_null_assumed(conds, r) or r == C(0):
                    rep.ok("R-C10-sink", entry, "null passthrough", inst, nontrivial=False)
                    continue
                T = (f.get("ctargt") or [None, None])[1] or {}
                psz = T.get("ptesz")
                if T.get("pteu") == "void" or psz is None:
                    psz = 1
                cnt = ("p", f["params"][1]["n"])
                demand(i, r, mul(C(psz), cnt), "buffer address handed to the verifier with %s elements of %d bytes" % (fmt(cnt), psz), f["loc"])
    # count != 0 where the property says so
    if f["sn"] in ("copy_and_verify_range", "copy_and_verify_buffer_address"):
        cnt = ("p", f["params"][1]["n"])
        if cmp_("!=", cnt, C(0)) in q.conds_before(p, len(evs)):
            rep.ok("R-C10-zero", entry, "count != 0 enforced", inst, nontrivial=False)
        else:
            rep.violation("R-C10-zero", entry, "an element count of 0 is not rejected", f["loc"], inst)


def has_loopvar(t):
    return any(isinstance(x, tuple) and x and x[0] == "havoc" for x in subterms(t))


def establishing_event(p, i, ptr):
    cand = None
    for e in p.events[:i]:
        if e.kind == "ASSUME":
            for a, b in q.same_sandbox_facts([e.a]):
                if a == ptr:
                    if not has_loopvar(b):
                        return e
                    cand = cand or e
    return cand


def lv_address(lv):
    """address term of an lvalue whose location is known: *(P), (*P).data (single-field wrapper at offset 0)"""
    if lv[0] == "deref":
        return lv[1]
    if lv[0] == "fld" and lv[2] == "data":
        return lv_address(lv[1])
    if lv[0] == "idx" and lv[1][0] == "deref":
        return None
    return None


def run(rep, tier):
    rep.rule("R-C10-sink", "every byte sink (memset/memcpy/memcmp/strlen/std::string(ptr,len)/element loop/raw pointer hand-back) reachable from the nine bulk "
             "entry points has, on every path, for each pointer operand p and size n: a dominating abort check p != 0 and a dominating abort check "
             "is_in_same_sandbox(p, p+n-1) on the same p and n (value identity through inlining); a scratch buffer must be a fresh allocation of exactly n bytes")
    rep.rule("R-C10-elem", "the extent that was range-checked equals the bytes accessed afterwards ((count-1)*stride+width for element loops; count*sizeof(host pointee) for raw pointers handed back)")
    rep.rule("R-C10-extent", "the byte extent is bounded (<= total sandbox memory, a constant bound that excludes wrap-around of count*size, or the length of an existing string) before start+extent-1 is formed")
    rep.rule("R-C10-zero", "copy_and_verify_range / copy_and_verify_buffer_address reject an element count of 0")
    backends = ["model32", "model32gi"] if tier == "quick" else ["model32", "model32gi", "noop", "dylib", "model32_dbg"]
    dbs = facts.load_core(backends, ["PTR", "INVOKE"], thorough=(tier == "thorough"))
    for db in dbs:
        rep.units.append(db.label)
    counts = {}
    for name in ENTRIES:
        for db in dbs:
            for f in db.insts(name):
                counts[name] = counts.get(name, 0) + 1
                inst = "%s | %s" % (db.label, f["full"][:160])
                try:
                    ps = q.paths(db, f)
                except Inconclusive as ex:
                    rep.inconclusive("R-C10-sink", site(f), str(ex), inst)
                    continue
                for p in ps:
                    analyse_path(rep, f, p, inst, None)
    for name, floor in FLOORS.items():
        rep.require(counts.get(name, 0) >= floor, "entry point %s: %d instantiations analysed (floor %d)" % (name, counts.get(name, 0), floor))
    rep.extra["entry_instantiations"] = counts
    rep.assumptions += ["backend predicates impl_is_in_same_sandbox / impl_get_total_memory are exact (backend contract)",
                        "strlen on sandbox memory terminates inside mapped memory (sandbox region is followed by a guard/unmapped area or contains a NUL)"]
