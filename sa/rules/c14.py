"""C14 - sandbox lifecycle is a strict state machine; the live-sandbox registry is exact."""
from .. import facts, q
from ..engine import Engine, Inconclusive, C, fmt, subterms
from ..common import site
from .ops import strip_casts
from . import owners
from .c04 import check_find, finder_functions

SB = "rlbox::rlbox_sandbox"
THIS_OBJ = ("deref", ("this",))
STATUS = ("addr", ("fld", THIS_OBJ, "sandbox_created"))
ATOMIC_WRITES = {"store", "compare_exchange_strong", "compare_exchange_weak", "exchange", "operator=", "fetch_add", "fetch_sub", "fetch_or", "fetch_and", "fetch_xor", "operator++", "operator--"}


def argvals(e):
    return (e.extra or {}).get("argvals", e.b)


def is_global(t, suffix):
    t = t[1] if isinstance(t, tuple) and t[:1] == ("addr",) else t
    return isinstance(t, tuple) and t[:1] == ("global",) and t[1].endswith(suffix)


def scan_status_writers(db):
    """who-may-write table: (function name, callee) for every atomic write applied to a member named sandbox_created"""
    out = []

    def walk(x, fn):
        if isinstance(x, dict):
            if x.get("k") == "call" and x.get("fn") and "obj" in x:
                o = x["obj"]
                while isinstance(o, dict) and o.get("k") in ("icast", "cast"):
                    o = o["e"]
                if isinstance(o, dict) and o.get("k") == "member" and o.get("n") == "sandbox_created":
                    nm = x["fn"]["n"].split("::")[-1]
                    if nm in ATOMIC_WRITES:
                        out.append((fn["n"], nm, x.get("loc")))
            if x.get("k") == "call" and x.get("opcall") in ("=", "++", "--") and x.get("args"):
                o = x["args"][0]
                while isinstance(o, dict) and o.get("k") in ("icast", "cast"):
                    o = o["e"]
                if isinstance(o, dict) and o.get("k") == "member" and o.get("n") == "sandbox_created":
                    out.append((fn["n"], "operator" + x["opcall"], x.get("loc")))
            if x.get("k") == "un" and x.get("op") == "&":
                o = x.get("e")
                if isinstance(o, dict) and o.get("k") == "member" and o.get("n") == "sandbox_created":
                    out.append((fn["n"], "address-of", x.get("loc")))
            for v in x.values():
                if isinstance(v, (dict, list)):
                    walk(v, fn)
        elif isinstance(x, list):
            for v in x:
                walk(v, fn)

    for f in db.functions:
        if not f["dep"] and "body" in f:
            walk(f["body"], f)
    return out


def run(rep, tier):
    rep.rule("R-C14-writers", "the status word is written only in create_sandbox and destroy_sandbox (who-may-write table over all instantiated functions) and the transition set is exactly "
             "A->B by compare-exchange with abort on failure, ->C after backend creation; C->D by compare-exchange with abort on failure, ->A; with A,B,C,D pairwise distinct, "
             "C the value every status guard compares against")
    rep.rule("R-C14-guards", "in malloc_in_sandbox, free_in_sandbox (all overloads), unregister_callback and register_callback the status test dominates every backend call with the prescribed outcome (null / ignore / ignore / abort)")
    rep.rule("R-C14-registry", "the sandbox is appended to the live list only after a successful backend create and removed (existence-checked) before backend destroy, both inside the unique guard; no other function writes the list; "
             "the lookup from an example address returns only a list element whose memory contains that address (or null)")
    rep.rule("R-C14-fresh", "every per-object container that operations fill (callback_keys, symbol caches) is emptied on the destroy/create cycle")
    backends = ["model32", "model32gi", "noop"] if tier == "quick" else ["model32", "model32gi", "noop", "dylib", "noop_tls", "model32_trans"]
    dbs = facts.load_core(backends, ["INVOKE", "PTR"], thorough=(tier == "thorough"))
    n = {}

    def cnt(k):
        n[k] = n.get(k, 0) + 1

    created_by_backend = {}
    for db in sorted(dbs, key=lambda d: (0 if d.label.endswith("INVOKE") else 1, d.label)):
        rep.units.append(db.label)
        label = db.label
        # ---- who may write the status word
        for fn_name, callee, loc in scan_status_writers(db):
            cnt("writers")
            if fn_name in (SB + "::create_sandbox", SB + "::destroy_sandbox") or owners.reached_only_from(db, fn_name, {SB + "::create_sandbox", SB + "::destroy_sandbox"}):
                rep.ok("R-C14-writers", fn_name, "%s on the status word" % callee, "%s | %s" % (label, loc), nontrivial=False)
            else:
                rep.violation("R-C14-writers", fn_name + " [status write]", "%s writes the sandbox status word (%s); only create_sandbox/destroy_sandbox may" % (fn_name, callee), loc, label)
        vals = {}
        finders = finder_functions(db)  # the address-to-sandbox lookup, identified by its use (handed to the backend's context-free translations)
        for f in db.functions:
            if f["dep"] or "body" not in f:
                continue
            inst = "%s | %s" % (label, f["full"][:150])
            try:
                if f["n"] == SB + "::create_sandbox":
                    check_create(rep, db, f, inst, vals); cnt("create")
                elif f["n"] == SB + "::destroy_sandbox":
                    check_destroy(rep, db, f, inst, vals); cnt("destroy")
                elif f["id"] in finders:
                    check_find(rep, db, f, inst, rule="R-C14-registry"); cnt("find")
            except Inconclusive as ex:
                rep.inconclusive("R-C14", site(f), str(ex), inst)
        if "INVOKE" in label and {"A", "B", "C", "D", "A2"} <= set(vals):
            A, B, Cc, D = vals["A"], vals["B"], vals["C"], vals["D"]
            if len({A, B, Cc, D}) == 4 and vals["A2"] == A and vals.get("C2") == Cc:
                rep.ok("R-C14-writers", SB + " [state machine]", "A=%d -CAS-> B=%d -> C=%d -CAS-> D=%d -> A" % (A, B, Cc, D), label)
            else:
                rep.violation("R-C14-writers", SB + " [state machine]", "status values do not form the cycle NOT_CREATED->INITIALIZING->CREATED->CLEANING_UP->NOT_CREATED: %s" % vals, "", label)
        be_name = label.split("/")[0]
        if vals.get("C") is not None:
            created_by_backend[be_name] = vals["C"]
        created = created_by_backend.get(be_name)
        if created is None:
            rep.require(False, "%s: the CREATED status value could not be determined" % label)
            continue
        for f in db.functions:
            if f["dep"] or "body" not in f:
                continue
            inst = "%s | %s" % (label, f["full"][:150])
            try:
                if f["n"] == SB + "::malloc_in_sandbox" and len(f["params"]) == 1:
                    check_guard(rep, db, f, inst, created, "impl_malloc_in_sandbox", "null"); cnt("guard")
                elif f["n"] == SB + "::free_in_sandbox":
                    check_guard(rep, db, f, inst, created, "impl_free_in_sandbox", "ignore"); cnt("guard")
                elif f["n"] == SB + "::unregister_callback":
                    check_guard(rep, db, f, inst, created, "impl_unregister_callback", "ignore"); cnt("guard")
                elif f["n"] == SB + "::register_callback" and len(f["params"]) == 1 and f["params"][0]["n"] == "func_ptr":
                    check_guard(rep, db, f, inst, created, "impl_register_callback", "abort"); cnt("guard")
            except Inconclusive as ex:
                rep.inconclusive("R-C14-guards", site(f), str(ex), inst)
        # ---- list writers
        for f in db.functions:
            if f["dep"] or "body" not in f:
                continue
            if refs_member(f["body"], "sandbox_list") and f["n"] not in (SB + "::create_sandbox", SB + "::destroy_sandbox") and f["id"] not in finders \
                    and not owners.reached_only_from(db, f["n"], {SB + "::create_sandbox", SB + "::destroy_sandbox"} | {g["n"] for g in finders.values()}):
                rep.violation("R-C14-registry", f["n"] + " [list access]", "%s touches the live-sandbox list (only create_sandbox, destroy_sandbox and the address-to-sandbox lookup may)" % f["n"], f["loc"], label)
    floors = {"writers": 8, "create": 3, "destroy": 3, "guard": 30, "find": 3}
    for k, v in floors.items():
        rep.require(n.get(k, 0) >= v, "only %d instances for rule group '%s' (floor %d)" % (n.get(k, 0), k, v))
    rep.extra["instances"] = n
    rep.assumptions += ["a failed backend create leaves the status at INITIALIZING, which keeps every clause of the statement true and is not flagged",
                        "behaviour over operation sequences follows from the per-function transitions; sequences are not enumerated (model-checking question)"]


def refs_member(x, name):
    if isinstance(x, dict):
        if x.get("k") in ("member", "ref") and x.get("n") == name:
            return True
        return any(refs_member(v, name) for v in x.values() if isinstance(v, (dict, list)))
    if isinstance(x, list):
        return any(refs_member(v, name) for v in x)
    return False


def denotes_this(p, x):
    """the value registered for this sandbox: `this` itself, or an entry object whose only content is `this` (a one-member struct
    wrapping the pointer)"""
    if strip_casts(x) == ("this",):
        return True
    for _ in range(4):
        if isinstance(x, tuple) and x[:1] in (("var",), ("tmp",)):
            flds = [(k, v) for k, v in p.state.mem.items() if isinstance(k, tuple) and k[:2] == ("fld", x)]
            if flds:
                return len(flds) == 1 and strip_casts(flds[0][1]) == ("this",)
            nx = p.state.mem.get(("copyof", x)) or p.state.mem.get(("alias", x))
            if nx is None:
                v = p.state.mem.get(x)
                return v is not None and strip_casts(v) == ("this",)
            x = nx
        else:
            return False
    return False


def aborts_unless(p, i0, r):
    """is the outcome r of the compare-exchange at event i0 asserted (abort check) before the next status / list operation?"""
    evs = p.events
    held = {r}
    for e in evs[i0 + 1:]:
        if e.kind == "ASSUME" and (e.extra or {}).get("abort_check") and q.mentions(e.a, lambda x: x in held or (isinstance(x, tuple) and x[:1] in (("var",), ("tmp",)) and p.state.mem.get(x) in held)):
            return True
        if e.kind == "CALL" and (q.short(e.a) in ("store", "exchange", "push_back", "emplace_back", "erase") or q.short(e.a).startswith(("compare_exchange", "impl_"))):
            return False
    return False


def status_calls(p):
    return [(i, e) for i, e in enumerate(p.events) if e.kind == "CALL" and e.c == STATUS]


def check_create(rep, db, f, inst, vals):
    ps = Engine(db).run(f)
    if not ps:
        rep.violation("R-C14-writers", site(f), "no returning path", f["loc"], inst)
        return
    saw_created = False
    for p in ps:
        evs = p.events
        sc = status_calls(p)
        cas = [(i, e) for i, e in sc if q.short(e.a).startswith("compare_exchange")]
        stores = [(i, e) for i, e in sc if q.short(e.a) == "store"]
        be = [i for i, e in enumerate(evs) if e.kind == "CALL" and q.short(e.a) == "impl_create_sandbox"]
        push = [i for i, e in enumerate(evs) if e.kind == "CALL" and q.short(e.a) in ("push_back", "emplace_back", "insert") and is_global(e.c, "::sandbox_list")]
        if len(cas) != 1 or not sc or sc[0][0] != cas[0][0]:
            rep.violation("R-C14-writers", site(f), "create_sandbox does not start with exactly one compare-exchange of the status word", f["loc"], inst)
            return
        i0, c = cas[0]
        r = (c.extra or {}).get("ret")
        if not aborts_unless(p, i0, r):
            rep.violation("R-C14-writers", site(f), "failure of the NOT_CREATED->INITIALIZING compare-exchange does not abort", f["loc"], inst)
            return
        av = argvals(c)
        if not (av[0][0] == "c" and av[1][0] == "c"):
            rep.violation("R-C14-writers", site(f), "compare-exchange operands are not status constants", f["loc"], inst)
            return
        vals["A"], vals["B"] = av[0][1], av[1][1]
        if len(be) != 1 or be[0] < i0:
            rep.violation("R-C14-registry", site(f), "backend creation is not called exactly once after the status transition", f["loc"], inst)
            return
        if stores:
            saw_created = True
            if len(stores) != 1 or stores[0][0] < be[0] or argvals(stores[0][1])[0][0] != "c":
                rep.violation("R-C14-writers", site(f), "CREATED is stored before backend creation completed", f["loc"], inst)
                return
            vals["C"] = argvals(stores[0][1])[0][1]
            locks = [i for i, e in enumerate(evs) if e.kind == "CALL" and q.short(e.a) in q.EXCLUSIVE_GUARDS and any(is_global(a, "::sandbox_list_lock") for a in e.b)]
            unl = [i for i, e in enumerate(evs) if e.kind == "UNLOCK"]
            if len(push) != 1 or len(evs[push[0]].b) != 1 or not denotes_this(p, evs[push[0]].b[0]) or push[0] < be[0] or not locks or not (locks[0] < push[0]) or not any(u > push[0] for u in unl) or any(locks[0] < u < push[0] for u in unl):
                rep.violation("R-C14-registry", site(f), "the sandbox is not appended exactly once, after backend creation, inside the unique list guard", f["loc"], inst)
                return
            # bool-returning backends: insertion only when creation succeeded
            bret = (evs[be[0]].extra or {}).get("ret")
            rt = ((evs[be[0]].extra or {}).get("rt") or {}).get("k")
            if rt == "bool":
                conds = q.conds_before(p, push[0])
                if not any(q.mentions(c_, lambda x: x == bret) for c_ in conds):
                    rep.violation("R-C14-registry", site(f), "a sandbox whose backend creation reported failure is still published", f["loc"], inst)
                    return
        else:
            if push:
                rep.violation("R-C14-registry", site(f), "the sandbox is published although CREATED was not stored", f["loc"], inst)
                return
    if not saw_created:
        rep.violation("R-C14-writers", site(f), "no path stores CREATED", f["loc"], inst)
        return
    rep.ok("R-C14-writers", site(f), "CAS(%s->%s)+abort, backend create, store(%s)" % (vals.get("A"), vals.get("B"), vals.get("C")), inst)
    rep.ok("R-C14-registry", site(f), "published after successful backend creation under the unique guard", inst)


def check_destroy(rep, db, f, inst, vals):
    ps = Engine(db).run(f)
    if not ps:
        rep.violation("R-C14-writers", site(f), "no returning path", f["loc"], inst)
        return
    for p in ps:
        evs = p.events
        sc = status_calls(p)
        cas = [(i, e) for i, e in sc if q.short(e.a).startswith("compare_exchange")]
        stores = [(i, e) for i, e in sc if q.short(e.a) == "store"]
        be = [i for i, e in enumerate(evs) if e.kind == "CALL" and q.short(e.a) == "impl_destroy_sandbox"]
        er = [i for i, e in enumerate(evs) if e.kind == "CALL" and q.short(e.a) == "erase" and is_global(e.c, "::sandbox_list")]
        fi = [i for i, e in enumerate(evs) if e.kind == "CALL" and q.short(e.a) in ("find", "remove")]  # find+erase(it) or the erase-remove idiom
        if len(cas) != 1 or sc[0][0] != cas[0][0]:
            rep.violation("R-C14-writers", site(f), "destroy_sandbox does not start with exactly one compare-exchange of the status word", f["loc"], inst)
            return
        i0, c = cas[0]
        r = (c.extra or {}).get("ret")
        if not aborts_unless(p, i0, r):
            rep.violation("R-C14-writers", site(f), "failure of the CREATED->CLEANING_UP compare-exchange does not abort", f["loc"], inst)
            return
        av = argvals(c)
        vals["C2"], vals["D"] = av[0][1] if av[0][0] == "c" else None, av[1][1] if av[1][0] == "c" else None
        if len(stores) != 1 or argvals(stores[0][1])[0][0] != "c":
            rep.violation("R-C14-writers", site(f), "NOT_CREATED is not stored exactly once", f["loc"], inst)
            return
        vals["A2"] = argvals(stores[0][1])[0][1]
        locks = [i for i, e in enumerate(evs) if e.kind == "CALL" and q.short(e.a) in q.EXCLUSIVE_GUARDS and any(is_global(a, "::sandbox_list_lock") for a in e.b)]
        unl = [i for i, e in enumerate(evs) if e.kind == "UNLOCK"]
        if len(be) == 1 and len(er) == 1 and not fi:
            # hand-written search (iterator loop, possibly in a helper): the iterator erased designates an element of the live list that
            # the loop compared equal to this sandbox; not finding it aborts (those paths do not survive)
            ea_ = argvals(evs[er[0]])
            pos = q.iterator_position(p, ea_[0]) if len(ea_) == 1 else None
            # nothing mutates the list between the search and the erase on this path: size() is one value
            conds_ = q.resolve([q.same_observer_calls(e.a) for e in evs[:er[0]] if e.kind == "ASSUME"])
            unrd = lambda t: t[1] if isinstance(t, tuple) and t[:1] == ("rd",) else t
            eq = pos is not None and pos[0] == "elem" and any(c[0] == "cmp" and c[1] == "==" and {unrd(c[2]), unrd(c[3])} == {("this",), pos[1]} for c in conds_)
            rng = [i for i, e in enumerate(evs) if e.kind == "RANGE" and is_global(e.a, "::sandbox_list")]
            locks_ = [i for i, e in enumerate(evs) if e.kind == "CALL" and q.short(e.a) in q.EXCLUSIVE_GUARDS and any(is_global(a, "::sandbox_list_lock") for a in e.b)]
            unl_ = [i for i, e in enumerate(evs) if e.kind == "UNLOCK"]
            # third idiom: the position is an index I - erase(list.begin() + I) where list[I] was compared equal to this sandbox
            by_index = False
            if not eq and len(ea_) == 1:
                a0 = ea_[0]
                for _ in range(4):
                    conv = next((e for e in evs if e.kind == "CALL" and (e.extra or {}).get("ret") == a0 and q.short(e.a) in ("__normal_iterator", "__wrap_iter") and len(argvals(e)) == 1), None)
                    if conv is None:
                        break
                    a0 = argvals(conv)[0]
                if isinstance(a0, tuple) and a0[:1] == ("ucall",) and q.short(a0[2]) == "operator+" and len(a0[3]) == 1 and isinstance(a0[4], tuple) and \
                        q.mentions(a0[4], lambda x: isinstance(x, tuple) and x[:1] == ("ucall",) and q.short(x[2]) in ("begin", "cbegin") and is_global(x[4], "::sandbox_list")):
                    I = strip_casts(a0[3][0])
                    by_index = any(c[0] == "cmp" and c[1] == "==" and any(
                        isinstance(x, tuple) and x[:1] == ("ucall",) and q.short(x[2]) in ("operator[]", "at") and len(x[3]) == 1 and strip_casts(x[3][0]) == I and is_global(x[4], "::sandbox_list") and y == ("this",)
                        for x, y in ((unrd(c[2]), c[3]), (unrd(c[3]), c[2]))) for c in conds_)
                    if by_index:
                        rng = [i for i, e in enumerate(evs) if e.kind == "CALL" and q.short(e.a) in ("operator[]", "at") and is_global(e.c, "::sandbox_list")]
            if (eq or by_index) and rng and locks_ and i0 < locks_[0] < rng[0] < er[0] < be[0] and any(u > er[0] for u in unl_) and not any(locks_[0] < u < er[0] for u in unl_):
                manual_destroy = True
            else:
                rep.violation("R-C14-registry", site(f), "the removal does not erase, inside the unique guard and before the backend is destroyed, the entry that was compared equal to this sandbox", evs[er[0]].loc, inst)
                return
        elif len(be) != 1 or len(er) != 1 or not fi:
            rep.violation("R-C14-registry", site(f), "expected one search, one erase and one backend destroy", f["loc"], inst)
            return
        else:
            manual_destroy = False
        if not manual_destroy:
            fa = argvals(evs[fi[0]])
            fr = (evs[fi[0]].extra or {}).get("ret")
            same = lambda x: x == fr or (isinstance(x, tuple) and x[:1] in (("var",), ("tmp",)) and p.state.mem.get(("copyof", x)) == fr)
            exist = any(e.kind == "ASSUME" and e.extra.get("abort_check") and q.mentions(e.a, same) for e in evs[fi[0]:er[0]])
            if len(fa) < 3 or not denotes_this(p, fa[2]) or not exist:
                rep.violation("R-C14-registry", site(f), "removal does not search for this sandbox and abort when it is absent", f["loc"], inst)
                return
            ea = argvals(evs[er[0]])
            rm = [(e.extra or {}).get("ret") for e in evs[:er[0]] if e.kind == "CALL" and q.short(e.a) == "remove" and len(argvals(e)) >= 3 and argvals(e)[2] == ("this",)]
            def resolve(x):
                # follow iterator copies and the iterator -> const_iterator converting constructor
                for _ in range(6):
                    if isinstance(x, tuple) and x[:1] in (("var",), ("tmp",)):
                        c_ = p.state.mem.get(("copyof", x))
                        if c_ is not None:
                            x = c_
                            continue
                        conv = next((e for e in evs if e.kind == "CALL" and (e.extra or {}).get("ret") == x and q.short(e.a) in ("__normal_iterator", "__wrap_iter") and len(argvals(e)) == 1), None)
                        if conv is not None:
                            x = argvals(conv)[0]
                            continue
                    break
                return x
            single = len(ea) == 1 and resolve(ea[0]) == fr
            erase_remove = len(ea) == 2 and any(resolve(ea[0]) == r_ for r_ in rm)
            if not (single or erase_remove):
                rep.violation("R-C14-registry", site(f), "the removal erases more than the entry found for this sandbox (erase(%s)): other live sandboxes would leave the registry" % ", ".join(fmt(x)[:50] for x in ea), evs[er[0]].loc, inst)
                return
            if not (er[0] < be[0]) or not locks or not (locks[0] < fi[0] < er[0]) or not any(u > er[0] for u in unl) or any(locks[0] < u < er[0] for u in unl):
                rep.violation("R-C14-registry", site(f), "the sandbox is not removed from the live list inside the unique guard before the backend is destroyed", f["loc"], inst)
                return
            if not (i0 < locks[0]):
                rep.violation("R-C14-writers", site(f), "list removal precedes the status transition", f["loc"], inst)
                return
        # R-C14-fresh
        clears = {fmt(e.c) for e in evs if e.kind == "CALL" and q.short(e.a) == "clear" and e.c is not None}
        rec = db.rec_by_id.get(f.get("rid")) or {}
        # every per-object standard container (by TYPE): the registered keys and the symbol caches; the app-pointer table is C15's
        # the per-object containers the statement names, identified by TYPE: the registered keys (a sequence of void*) and the symbol
        # caches (name -> void*); the app-pointer table is C15's, the profiling log (transition_times) is the user's to clear
        def is_key(tn):
            # an opaque key: void*, or a small struct that only wraps such pointers
            if tn.strip() == "void *":
                return True
            r_ = next((r_ for r_ in db.records if r_.get("n_full") == tn.strip() and not r_.get("dep")), None)
            return r_ is not None and 1 <= len(r_.get("fields") or []) <= 2 and all((fl["t"] or {}).get("k") == "ptr" for fl in r_["fields"])

        def is_registry(c):
            import re
            m_ = re.match(r"^std::(vector|set|unordered_set|list|deque)<(.*?)(, std::allocator<.*>)?>$", c)
            if m_ and is_key(m_.group(2)):
                return True
            return c.startswith(("std::vector<void *>", "std::set<void *>", "std::unordered_set<void *>", "std::list<void *>")) or \
                (c.startswith(("std::map<", "std::unordered_map<")) and c.rstrip("> ").endswith("void *") and "string" in c)
        conts = [fl["n"] for fl in rec.get("fields", []) if is_registry((fl["t"] or {}).get("c") or "")]
        if "callback_keys" not in conts:
            shared = [sv["n"] for sv in rec.get("svars", []) if is_registry((sv.get("t") or {}).get("c") or "") and sv["n"] not in ("sandbox_list",)]
            if shared:
                # the per-object registry became a static member: every sandbox object of this type shares it, so what a sandbox accepts
                # depends on the registrations and the lifecycle of OTHER sandbox objects (and a destroyed one leaves its keys behind)
                for nm_ in shared:
                    rep.violation("R-C14-fresh", "rlbox::rlbox_sandbox [static registry %s]" % nm_, "the registry '%s' is a static member shared by all sandbox objects of the type: it is neither per object nor emptied per lifecycle" % nm_, f["loc"], inst)
            else:
                rep.require(False, "anchor field callback_keys not found in rlbox_sandbox")
        for cont in conts:
            if any(cont in x for x in clears):
                rep.ok("R-C14-fresh", site(f) + " [%s]" % cont, "emptied on destroy", inst)
            else:
                rep.violation("R-C14-fresh", site(f) + " [%s]" % cont, "per-object container '%s' survives destroy_sandbox: the next incarnation of this sandbox object sees the previous one's entries" % cont, f["loc"], inst)
    rep.ok("R-C14-writers", site(f), "CAS(%s->%s)+abort, list removal, store(%s), backend destroy" % (vals.get("C2"), vals.get("D"), vals.get("A2")), inst)
    rep.ok("R-C14-registry", site(f), "existence-checked removal under the unique guard before backend destroy", inst)


def check_guard(rep, db, f, inst, created, backend_call, outcome):
    rule = "R-C14-guards"
    ps = q.paths(db, f)
    n_be = 0
    n_not = 0
    for p in ps:
        evs = p.events
        be = [i for i, e in enumerate(evs) if e.kind == "CALL" and q.short(e.a) == backend_call]
        loads = [(i, e) for i, e in enumerate(evs) if e.kind == "CALL" and q.short(e.a) == "load" and e.c is not None and e.c[:1] == ("addr",) and e.c[1][:1] == ("fld",) and e.c[1][2] == "sandbox_created"]
        if be:
            n_be += 1
            ok = False
            for i, e in loads:
                if i < be[0]:
                    r = (e.extra or {}).get("ret")
                    want = ("cmp", "==", r, C(created))
                    if want in q.conds_before(p, be[0]):
                        ok = True
            if not ok:
                rep.violation(rule, site(f), "%s is reachable without a dominating `status == CREATED` test" % backend_call, f["loc"], inst)
                return
            # nothing of the sandbox's own bookkeeping may be touched before the status was tested: a call refused for the status
            # must leave no trace (e.g. a key in callback_keys that makes the next, legitimate, registration look like a duplicate)
            muts = [i for i, e in enumerate(evs) if e.kind == "CALL" and q.short(e.a) in owners.MUTATORS and e.c is not None and e.c[:1] == ("addr",) and
                    isinstance(e.c[1], tuple) and e.c[1][:2] == ("fld", owners.THIS_OBJ) and i < be[0]]
            for i in muts:
                tested = False
                for j, e in loads:
                    if j < i and ("cmp", "==", (e.extra or {}).get("ret"), C(created)) in q.conds_before(p, i):
                        tested = True
                if not tested:
                    rep.violation(rule, site(f) + " [bookkeeping before the status test]", "%s of the member %s happens before the `status == CREATED` test: a call that is then refused has already changed the sandbox's bookkeeping" % (
                        q.short(evs[i].a), fmt(evs[i].c)[:60]), evs[i].loc or f["loc"], inst)
                    return
        else:
            if loads:
                n_not += 1
                if outcome == "null":
                    d = p.state.mem.get(("fld", p.retval, "data")) if isinstance(p.retval, tuple) else None
                    if d is None and isinstance(p.retval, tuple):
                        src = p.state.mem.get(("copyof", p.retval))
                        d = p.state.mem.get(("fld", src, "data")) if src is not None else None
                    if d != C(0) and not any(q.short(e.a) == backend_call for e in evs if e.kind == "CALL"):
                        # paths that fail later (e.g. allocation returned null) are fine as long as they come after the guard
                        pass
    if n_be == 0:
        rep.violation(rule, site(f), "the backend call %s was not found on any path" % backend_call, f["loc"], inst)
        return
    if outcome in ("null", "ignore") and n_not == 0:
        rep.violation(rule, site(f), "there is no path on which a not-created sandbox is tolerated (expected %s)" % outcome, f["loc"], inst)
        return
    if outcome == "abort" and any(not [e for e in p.events if e.kind == "CALL" and q.short(e.a) == backend_call] for p in ps):
        rep.violation(rule, site(f), "registration on a not-created sandbox returns instead of aborting", f["loc"], inst)
        return
    rep.ok(rule, site(f), "status == CREATED dominates %s; not-created outcome: %s" % (backend_call, outcome), inst)
