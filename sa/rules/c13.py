"""C13 - callback registrations have exactly one owner and end when that owner does."""
from .. import facts, q
from ..engine import Inconclusive, C, fmt, cmp_, truthy, subterms
from ..common import site
from . import owners
from .ops import strip_casts as strip_casts_

THIS_OBJ = owners.THIS_OBJ
CB = "rlbox::sandbox_callback"
SB = "rlbox::rlbox_sandbox"
CREATED = 2  # Sandbox_Status::CREATED (checked against the enum below)


def release_pred(e):
    if e.kind != "CALL":
        return False
    s = q.short(e.a)
    if s == "impl_unregister_callback":
        return True
    return s == "load" and e.c is not None and "sandbox_created" in fmt(e.c)


def status_value(db, name="CREATED"):
    return None


def run(rep, tier):
    rep.rule("R-C13-unique", "sandbox_callback is not copyable (copy constructor deleted, no copy assignment) and the constructor taking a registration is private")
    rep.rule("R-C13-move", "move_obj / move constructor transfer every non-static field and reset every field of the source (field list taken from the record); "
             "move assignment releases the current registration before the first overwrite on the this != &other path and is a no-op on self-assignment")
    rep.rule("R-C13-release", "destructor and unregister() reach unregister_callback(key) iff a callback is held and then reset all fields")
    rep.rule("R-C13-register", "register_callback: status == CREATED abort check first; duplicate-key test and key insertion both inside the callback_lock guard; "
             "the key tested, inserted, passed to the backend and stored in the owner is the same value; the owner's trampoline is the backend's result")
    rep.rule("R-C13-unregister", "unregister_callback: returns silently when not CREATED (no backend call); otherwise backend unregistration of that key and erasure of exactly that key under the lock after an existence abort check")
    rep.rule("R-C13-refuse", "in each bundled backend every returning path of impl_register_callback yields a non-null entry point (a check dominates the return)")
    rep.rule("R-C13-keyset", "the registered-key set is changed only by register_callback (adds the key it hands to the backend) and unregister_callback (removes the key it releases in the backend), or by helpers reachable "
             "only from them: any other writer (e.g. a wholesale clear) makes the key set disagree with the live owners and the backend's entry points")
    backends = ["model32", "noop"] if tier == "quick" else ["model32", "model32gi", "noop", "dylib", "noop_tls", "dylib_tls"]
    if tier == "quick":
        backends.append("dylib")
    dbs = facts.load_core(backends, ["INVOKE"], thorough=(tier == "thorough"))
    n = {"move": 0, "assign": 0, "release": 0, "register": 0, "unregister": 0, "refuse": 0, "unique": 0}
    styles = []
    for db in dbs:
        rep.units.append(db.label)
        style = {}
        styles.append((db.label, style))
        for r in db.records:
            if r["n"] == CB and not r["dep"]:
                inst = "%s | %s" % (db.label, r["n_full"][:120])
                n["unique"] += 1
                ms = r["methods"]
                copy_ctor = [m for m in ms if m.get("copy") and not m.get("deleted")]
                copy_asg = [m for m in ms if m.get("copyassign") and not m.get("deleted")]
                reg_ctor = [m for m in ms if m.get("kind") == "ctor" and len(m.get("params", [])) >= 4]
                if copy_ctor or copy_asg or not r.get("has_copy_ctor_deleted", False):
                    rep.violation("R-C13-unique", CB, "sandbox_callback is copyable (two owners of one registration become possible)", r["loc"], inst)
                elif not reg_ctor or any(m["access"] != 2 for m in reg_ctor):
                    rep.violation("R-C13-unique", CB, "the constructor taking a registration is not private", r["loc"], inst)
                else:
                    rep.ok("R-C13-unique", CB, "copy deleted; registration constructor private", inst)
        SBN = "rlbox::rlbox_sandbox"
        allowed = {SBN + "::register_callback", SBN + "::unregister_callback"}
        muts = owners.member_mutations(db, "callback_keys")
        rep.require(len({m[0]["n"] for m in muts}) >= 2, "%s: fewer than two functions change callback_keys (anchor lost)" % db.label)
        for fn, what, loc in muts:
            inst = "%s | %s" % (db.label, fn["full"][:150])
            if fn["n"] in allowed or owners.reached_only_from(db, fn["n"], allowed):
                rep.ok("R-C13-keyset", site(fn), "callback_keys.%s" % what, inst)
                n["keyset"] = n.get("keyset", 0) + 1
            else:
                rep.violation("R-C13-keyset", site(fn) + " [callback_keys]", "%s changes the registered-key set (callback_keys: %s) although it is neither register_callback nor unregister_callback: "
                              "owners that are still live and the backend's entry points no longer agree with the key set" % (fn["n"].split("::")[-1], what), loc, inst)
        for f in db.functions:
            if f["dep"] or "body" not in f:
                continue
            inst = "%s | %s" % (db.label, f["full"][:150])
            nm = f["n"]
            if owners.is_transfer_member(f, CB):
                owners.check_move_obj(rep, "C13", db, f, inst)
                n["move"] += 1
            elif nm == CB + "::operator=":
                owners.check_move_assign(rep, "C13", db, f, inst, release_pred, "callback")
                n["assign"] += 1
            elif nm in (CB + "::~sandbox_callback", CB + "::unregister"):
                rec = owners.record_of(db, f)
                owners.check_release(rep, "C13", db, f, inst, lambda e: e.kind == "CALL" and q.short(e.a) == "impl_unregister_callback", "callback", owners.field_names(rec, db))
                n["release"] += 1
            elif nm == SB + "::register_callback" and len(f["params"]) == 1 and "func_ptr" == f["params"][0]["n"]:
                check_register(rep, db, f, inst, style)
                n["register"] += 1
            elif nm == SB + "::unregister_callback":
                check_unregister(rep, db, f, inst, style)
                n["unregister"] += 1
            elif f["sn"] == "impl_register_callback" and not db.label.startswith("model32"):
                check_refuse(rep, db, f, inst)
                n["refuse"] += 1
            elif f["sn"] == "impl_unregister_callback" and not db.label.startswith("model32"):
                # a backend that cannot find every registered key leaves the entry point of a released owner callable
                from .c12 import check_unregister_scan
                try:
                    check_unregister_scan(rep, db, f, inst, rule="R-C13-unregister")
                except Inconclusive as ex:
                    rep.inconclusive("R-C13-unregister", site(f), str(ex), inst)
    # who may write the backend's slot tables: registration and unregistration (and helpers reachable only from them).  Any other writer -
    # a destroy that "hands the entry points back", a reset - frees slots whose owners are still live: the next registration is given
    # an entry point that a live owner already holds (two owners, one entry point; the old owner's calls reach the new function)
    rep.rule("R-C13-slot-writers", "in each bundled backend the per-slot key / entry tables are written only by impl_register_callback and impl_unregister_callback (or helpers reachable only from them)")
    from .c12 import slot_layout, idx_store
    from ..engine import Engine
    n_scanned = 0
    for db in dbs:
        if db.label.startswith("model32"):
            continue
        regs = {}
        for f in db.functions:
            if f["sn"] == "impl_register_callback" and not f["dep"] and "body" in f and f.get("rid") is not None:
                regs.setdefault(f["rid"], f)
        for rid, rf in regs.items():
            try:
                lay = slot_layout(db, rf)
            except Inconclusive:
                continue
            if "key" not in lay.pat or "fn" not in lay.pat:
                continue
            cls = rf["n"].rsplit("::", 1)[0]
            allowed = {cls + "::impl_register_callback", cls + "::impl_unregister_callback"}
            seen_fn = set()
            for f in db.functions:
                if f["dep"] or "body" not in f or f.get("rid") != rid or f["n"] in allowed or f["n"] in seen_fn or f.get("kind") in ("ctor", "dtor"):
                    continue
                seen_fn.add(f["n"])
                try:
                    ps = Engine(db).run(f)
                except Inconclusive:
                    continue
                n_scanned += 1
                inst = "%s | %s" % (db.label, f["full"][:150])
                w = [(role, e) for p in ps for e in p.events for role in ("key", "fn") if idx_store(e, lay, role) is not None]
                if w and not owners.reached_only_from(db, f["n"], allowed):
                    role, e = w[0]
                    rep.violation("R-C13-slot-writers", site(f) + " [slot tables]", "%s writes the backend's %s table (%s := %s) although it is neither registration nor unregistration: slots of owners that are still live "
                                  "are handed out again (two owners, one entry point)" % (f["sn"], "key" if role == "key" else "entry", fmt(e.a)[:60], fmt(e.b)[:30]), e.loc or f["loc"], inst)
                else:
                    rep.ok("R-C13-slot-writers", site(f), "does not write the slot tables" if not w else "helper of registration / unregistration", inst)
    rep.require(n_scanned >= 8, "only %d backend member functions scanned for slot-table writes (floor 8)" % n_scanned)
    for label, style in styles:
        if style.get("search") == "ordered" and style.get("removal") == "unordered":
            rep.violation("R-C13-register", SB + "::unregister_callback [ordered search]", "register_callback's duplicate test is a binary search over callback_keys, but unregister_callback removes keys by swapping with the last "
                          "element: the order the search relies on is destroyed and a registered function can be registered a second time", style.get("removal_loc", ""), label)
        elif style.get("search") and style.get("removal"):
            rep.ok("R-C13-register", SB + " [search/removal agreement]", "duplicate search '%s' is compatible with removal '%s'" % (style["search"], style["removal"]), label)
    floors = {"move": 3, "assign": 3, "release": 6, "register": 6, "unregister": 3, "refuse": 4, "unique": 3}
    for k, v in floors.items():
        rep.require(n[k] >= v, "only %d instances for rule group '%s' (floor %d)" % (n[k], k, v))
    rep.extra["instances"] = n
    rep.assumptions += ["decides ownership typestate per function; the set-equality invariant over all histories follows by induction on these steps and is not enumerated",
                        "third-party backends may legitimately return representation 0 for a trampoline; the refusal rule is therefore checked in the bundled backends"]


def check_register(rep, db, f, inst, style):
    rule = "R-C13-register"
    try:
        ps = q.paths(db, f)
    except Inconclusive as ex:
        rep.inconclusive(rule, site(f), str(ex), inst)
        return
    if not ps:
        rep.violation(rule, site(f), "no returning path", f["loc"], inst)
        return
    for p in ps:
        evs = p.events
        # status check
        loads = [i for i, e in enumerate(evs) if e.kind == "CALL" and q.short(e.a) == "load" and e.c is not None and "sandbox_created" in fmt(e.c)]
        backend = [i for i, e in enumerate(evs) if e.kind == "CALL" and q.short(e.a) == "impl_register_callback"]
        pushes = [i for i, e in enumerate(evs) if e.kind == "CALL" and q.short(e.a) in ("push_back", "emplace_back", "insert") and e.c is not None and "callback_keys" in fmt(e.c)]
        finds = [i for i, e in enumerate(evs) if e.kind == "CALL" and q.short(e.a) == "find"]
        counted = False
        if not finds:
            # the duplicate test spelled as a count of occurrences (std::count(begin, end, key) == 0)
            finds = [i for i, e in enumerate(evs) if e.kind == "CALL" and q.short(e.a) == "count" and len((e.extra or {}).get("argvals", e.b)) == 3]
            counted = bool(finds)
        locks = [i for i, e in enumerate(evs) if e.kind == "CALL" and q.short(e.a) in q.EXCLUSIVE_GUARDS and "callback_lock" in " ".join(fmt(a) for a in e.b)]
        unlocks = [i for i, e in enumerate(evs) if e.kind == "UNLOCK"]
        bad = None
        ordered = [i for i, e in enumerate(evs) if e.kind == "CALL" and q.short(e.a) in ("lower_bound", "upper_bound", "equal_range", "binary_search")]
        if ordered and not finds:
            # ordered-search idiom: the duplicate test is a binary search; insertion must keep the order (insert at the position found)
            style["search"] = "ordered"
            finds = ordered
            ins = [i for i, e in enumerate(evs) if e.kind == "CALL" and q.short(e.a) in ("insert", "emplace") and e.c is not None and "callback_keys" in fmt(e.c)]
            if len(ins) != 1 or [i for i, e in enumerate(evs) if e.kind == "CALL" and q.short(e.a) in ("push_back", "emplace_back") and e.c is not None and "callback_keys" in fmt(e.c)]:
                rep.violation(rule, site(f) + " [ordered search]", "the duplicate test is a binary search but the key is not inserted at the position found (the order the search relies on is not maintained)", f["loc"], inst)
                return
            pushes = ins
        elif finds:
            style["search"] = "linear"
        manual = None
        if not finds:
            # hand-written linear search: a loop over callback_keys comparing each element with the key and recording the outcome
            rng = [i for i, e in enumerate(evs) if e.kind in ("RANGE", "LOOPSKIP") and "callback_keys" in fmt(e.a)]
            if rng:
                style["search"] = "linear"
                finds = rng[:1]
                manual = {"key": None, "flag": None, "end": None}
                for j, e in enumerate(evs):
                    ca = e.a[1] if e.kind == "ASSUME" and isinstance(e.a, tuple) and e.a[:1] == ("not",) else e.a
                    if j > rng[0] and e.loop > 0 and e.kind == "ASSUME" and isinstance(ca, tuple) and ca[0] == "cmp" and ca[1] in ("==", "!="):
                        ops_ = [ca[2], ca[3]]
                        el = [x for x in ops_ if isinstance(x, tuple) and (x[:1] == ("elem",) or (x[:1] == ("rd",) and isinstance(x[1], tuple) and x[1][:1] == ("elem",)))]
                        if el and manual["key"] is None:
                            manual["key"] = [x for x in ops_ if x not in el][0]
                    if j > rng[0] and e.loop > 0 and e.kind == "STORE" and isinstance(e.a, tuple) and e.a[:1] == ("var",) and manual["flag"] is None:
                        manual["flag"] = e.a[2] if len(e.a) > 2 else None
                    if e.kind == "LOOP_END" and manual["end"] is None and j > rng[0]:
                        manual["end"] = j
        if not loads or not backend or min(loads) > min(backend):
            bad = "the CREATED status is not checked before the backend registration"
        else:
            st = (evs[loads[0]].extra or {}).get("ret")
            okst = any(e.kind == "ASSUME" and e.a[0] == "cmp" and e.a[1] == "==" and e.a[2] == st and e.a[3][0] == "c" for e in evs[loads[0]:backend[0]])
            if not okst:
                bad = "register_callback does not abort unless status == CREATED"
        if bad is None:
            if len(pushes) != 1 or len(finds) < 1:
                bad = "expected exactly one key insertion preceded by a duplicate search (found %d insertions, %d searches)" % (len(pushes), len(finds))
            elif not locks or not (locks[0] < finds[0] and locks[0] < pushes[0]) or not any(u > pushes[0] for u in unlocks) or any(locks[0] < u < pushes[0] for u in unlocks):
                bad = "duplicate test and key insertion are not both inside one callback_lock guard"
        if bad is None:
            ins_args = (evs[pushes[0]].extra or {}).get("argvals", evs[pushes[0]].b)
            key_ins = ins_args[1] if q.short(evs[pushes[0]].a) in ("insert", "emplace") and len(ins_args) > 1 else ins_args[0]
            if manual is None:
                fa = (evs[finds[0]].extra or {}).get("argvals", evs[finds[0]].b)
                key_find = fa[2] if len(fa) >= 3 else None
                fret = (evs[finds[0]].extra or {}).get("ret")
                # the negative outcome of the search must be asserted before inserting
                dup_checked = any(e.kind == "ASSUME" and fret is not None and q.mentions(e.a, lambda x: same_obj(p, x, fret)) for e in evs[finds[0]:pushes[0]])
                if counted:
                    # a count: the surviving path must have asserted that it is zero
                    def is_zero(c):
                        if not isinstance(c, tuple):
                            return False
                        if c[:1] == ("not",):
                            return same_obj(p, strip_casts_(c[1]), fret)
                        if c[:1] == ("cmp",) and len(c) == 4:
                            a_, b_ = strip_casts_(c[2]), strip_casts_(c[3])
                            if c[1] == "==":
                                return (same_obj(p, a_, fret) and b_ == C(0)) or (same_obj(p, b_, fret) and a_ == C(0))
                            if c[1] == "<":
                                return same_obj(p, a_, fret) and b_ == C(1)
                            if c[1] == "<=":
                                return same_obj(p, a_, fret) and b_ == C(0)
                        return False
                    dup_checked = any(e.kind == "ASSUME" and (e.extra or {}).get("abort_check") and is_zero(e.a) for e in evs[finds[0]:pushes[0]])
            elif evs[finds[0]].kind == "LOOPSKIP":
                # empty key set on this path: nothing to compare with; the loop paths carry the obligations
                key_find, dup_checked = key_ins, True
            else:
                key_find = manual["key"]
                fl = manual["flag"]
                # the recorded outcome (a flag written inside the loop) must be asserted between the end of the loop and the insertion
                dup_checked = manual["end"] is not None and any(
                    e.kind == "ASSUME" and (e.extra or {}).get("abort_check") and q.mentions(e.a, lambda x: isinstance(x, tuple) and x[:1] == ("havoc",) and (fl is None or x[-1] == fl))
                    for e in evs[manual["end"]:pushes[0]])
                if not dup_checked:
                    # the search may abort from inside (a helper returning the position, tested against end()): then the surviving
                    # loop path carries `key != element` as an abort check (its `==` sibling never returns)
                    dup_checked = any(e.kind == "ASSUME" and e.loop > 0 and (e.extra or {}).get("abort_check") and isinstance(e.a, tuple) and e.a[:2] == ("cmp", "!=") and
                                      any(isinstance(x, tuple) and (x[:1] == ("elem",) or (x[:1] == ("rd",) and isinstance(x[1], tuple) and x[1][:1] == ("elem",))) for x in e.a[2:4])
                                      for e in evs[finds[0]:pushes[0]])
            key_ins = q.unwrap_entry(p, key_ins)
            key_find = q.unwrap_entry(p, key_find)
            key_backend = evs[backend[0]].b[0]
            owner_key = p.state.mem.get(("fld", p.retval, "key")) if isinstance(p.retval, tuple) else None
            owner_tr = p.state.mem.get(("fld", p.retval, "callback_trampoline")) if isinstance(p.retval, tuple) else None
            owner_sb = p.state.mem.get(("fld", p.retval, "sandbox")) if isinstance(p.retval, tuple) else None
            if not dup_checked:
                bad = "the result of the duplicate search is not asserted before the key is inserted"
            elif backend[0] < pushes[0]:
                bad = ("the backend is asked for an entry point BEFORE the duplicate check: a refused duplicate has already taken a backend slot that no owner will ever release "
                       "(and first-match unregistration may later clear that orphan instead of the owner's slot)")
            elif not (key_ins == key_find == key_backend == owner_key):
                bad = "key mismatch: searched %s, inserted %s, backend %s, owner %s" % (fmt(key_find), fmt(key_ins), fmt(key_backend), fmt(owner_key))
            elif owner_tr != (evs[backend[0]].extra or {}).get("ret"):
                bad = "the owner's trampoline is not the backend's registration result"
            elif owner_sb != ("this",):
                bad = "the owner does not refer to this sandbox"
            elif not q.mentions(key_ins, lambda x: x == ("p", f["params"][0]["n"])):
                bad = "the unique key is not derived from the registered function"
        if bad:
            rep.violation(rule, site(f), bad, f["loc"], inst)
            return
    rep.ok(rule, site(f), "status check, locked duplicate test + insertion, one key everywhere", inst)


def check_unregister(rep, db, f, inst, style):
    rule = "R-C13-unregister"
    try:
        ps = q.paths(db, f)
    except Inconclusive as ex:
        rep.inconclusive(rule, site(f), str(ex), inst)
        return
    key = ("p", f["params"][0]["n"])
    n_swallow = n_do = 0
    for p in ps:
        evs = p.events
        backend = [i for i, e in enumerate(evs) if e.kind == "CALL" and q.short(e.a) == "impl_unregister_callback"]
        loads = [i for i, e in enumerate(evs) if e.kind == "CALL" and q.short(e.a) == "load" and e.c is not None and "sandbox_created" in fmt(e.c)]
        if not loads:
            rep.violation(rule, site(f), "a path does not consult the sandbox status", f["loc"], inst)
            return
        st = (evs[loads[0]].extra or {}).get("ret")
        is_created = any(e.kind == "ASSUME" and e.a[0] == "cmp" and e.a[1] == "==" and e.a[2] == st for e in evs)
        if not is_created:
            n_swallow += 1
            if backend or any(e.kind == "CALL" and q.short(e.a) == "erase" for e in evs):
                rep.violation(rule, site(f), "backend/erase reached although the sandbox is not CREATED", f["loc"], inst)
                return
            continue
        n_do += 1
        erases = [i for i, e in enumerate(evs) if e.kind == "CALL" and q.short(e.a) == "erase" and e.c is not None and "callback_keys" in fmt(e.c)]
        finds = [i for i, e in enumerate(evs) if e.kind == "CALL" and q.short(e.a) == "find"]
        if not finds:
            # erase-remove idiom: std::remove(begin, end, key) plays the search (its result differs from end() iff the key was present),
            # erase(result, end()) the removal
            finds = [i for i, e in enumerate(evs) if e.kind == "CALL" and q.short(e.a) == "remove" and len((e.extra or {}).get("argvals", e.b)) == 3]
        locks = [i for i, e in enumerate(evs) if e.kind == "CALL" and q.short(e.a) in q.EXCLUSIVE_GUARDS and "callback_lock" in " ".join(fmt(a) for a in e.b)]
        unlocks = [i for i, e in enumerate(evs) if e.kind == "UNLOCK"]
        bad = None
        pops = [i for i, e in enumerate(evs) if e.kind == "CALL" and q.short(e.a) in ("pop_back",) and e.c is not None and "callback_keys" in fmt(e.c)]
        if pops and not erases:
            # swap-with-last-and-pop removal: fine with a linear duplicate search, wrong with an ordered one
            style["removal"] = "unordered"
            style["removal_loc"] = f["loc"]
            fnd = [i for i, e in enumerate(evs) if e.kind == "CALL" and q.short(e.a) in ("find", "lower_bound")]
            if len(backend) == 1 and evs[backend[0]].b[0] == key and fnd and any(e.kind == "ASSUME" and e.extra.get("abort_check") for e in evs[fnd[0]:pops[0]]):
                continue
            rep.violation(rule, site(f), "swap-and-pop removal without an existence-checked search of the key", f["loc"], inst)
            return
        elif erases:
            style["removal"] = "ordered"
        manual_ok = False
        if len(erases) == 1 and not finds:
            # hand-written search (iterator loop, possibly in a helper): the iterator erased designates an element of callback_keys
            # that the loop compared equal to the key; not finding it aborts (those paths do not survive)
            ea = (evs[erases[0]].extra or {}).get("argvals", evs[erases[0]].b)
            pos = q.iterator_position(p, ea[0]) if ea else None
            if pos and pos[0] == "elem" and "callback_keys" in fmt(pos[1]):
                conds = q.conds_before(p, erases[0])
                eq = any(c[0] == "cmp" and c[1] == "==" and {strip_rd_(c[2]), strip_rd_(c[3])} == {key, pos[1]} for c in conds)
                rng = [i for i, e in enumerate(evs) if e.kind == "RANGE" and "callback_keys" in fmt(e.a)]
                if eq and rng and locks and locks[0] < rng[0] < erases[0] and any(u > erases[0] for u in unlocks) and not any(locks[0] < u < erases[0] for u in unlocks):
                    manual_ok = True
                    style["removal"] = "ordered"
            if not manual_ok and ea:
                # the position as an index: erase(callback_keys.begin() + I) where callback_keys[I] was compared equal to the key
                is_keys = lambda o: o is not None and "callback_keys" in fmt(o)
                I = q.erased_index(p, ea[0], is_keys)
                if I is not None:
                    conds = q.resolve([q.same_observer_calls(e.a) for e in evs[:erases[0]] if e.kind == "ASSUME"])
                    acc = [i for i, e in enumerate(evs) if e.kind == "CALL" and q.short(e.a) in ("operator[]", "at") and is_keys(e.c)]
                    if q.indexed_equal(conds, is_keys, I, key) and acc and locks and locks[0] < acc[0] < erases[0] and any(u > erases[0] for u in unlocks) and not any(locks[0] < u < erases[0] for u in unlocks):
                        manual_ok = True
                        style["removal"] = "ordered"
        if len(backend) != 1 or evs[backend[0]].b[0] != key:
            bad = "backend unregistration is not called exactly once with the given key"
        elif manual_ok:
            pass
        elif len(erases) != 1 or not finds:
            bad = "expected one search and one erase of the key"
        elif not locks or not (locks[0] < finds[0] < erases[0]) or not any(u > erases[0] for u in unlocks) or any(locks[0] < u < erases[0] for u in unlocks):
            bad = "search and erase are not inside one callback_lock guard"
        else:
            fa = (evs[finds[0]].extra or {}).get("argvals", evs[finds[0]].b)
            fret = (evs[finds[0]].extra or {}).get("ret")
            if len(fa) < 3 or fa[2] != key:
                bad = "the key searched is not the key passed in"
            elif not any(e.kind == "ASSUME" and q.mentions(e.a, lambda x: same_obj(p, x, fret)) for e in evs[finds[0]:erases[0]]):
                bad = "existence of the key is not checked before erasing"
            else:
                ea = (evs[erases[0]].extra or {}).get("argvals", evs[erases[0]].b)

                def resolve_it(x):
                    # follow iterator copies and the iterator -> const_iterator converting constructor
                    for _ in range(6):
                        if isinstance(x, tuple) and x[:1] in (("var",), ("tmp",)):
                            c_ = p.state.mem.get(("copyof", x))
                            if c_ is not None:
                                x = c_
                                continue
                            conv = next((e for e in evs if e.kind == "CALL" and (e.extra or {}).get("ret") == x and q.short(e.a) in ("__normal_iterator", "__wrap_iter") and
                                         len((e.extra or {}).get("argvals", e.b)) == 1), None)
                            if conv is not None:
                                x = (conv.extra or {}).get("argvals", conv.b)[0]
                                continue
                        break
                    return x
                if q.short(evs[finds[0]].a) == "remove":
                    # erase(result of remove, end()): exactly the occurrences of the key
                    if not (len(ea) == 2 and resolve_it(ea[0]) == fret):
                        bad = "the range erased does not start at the result of std::remove for the key"
                elif not any(q.mentions(a, lambda x: same_obj(p, x, fret)) for a in ea + list(evs[erases[0] - 1].b if evs[erases[0] - 1].kind == "CALL" else [])):
                    bad = "the element erased is not the element found"
        if bad:
            rep.violation(rule, site(f), bad, f["loc"], inst)
            return
    if n_swallow == 0 or n_do == 0:
        rep.violation(rule, site(f), "status guard missing (swallow paths %d, acting paths %d)" % (n_swallow, n_do), f["loc"], inst)
        return
    rep.ok(rule, site(f), "status guard; backend + locked checked erase of the same key", inst)


def strip_rd_(t):
    return t[1] if isinstance(t, tuple) and t[:1] == ("rd",) else t


def same_obj(p, x, target):
    if x == target:
        return True
    if isinstance(x, tuple) and x[:1] in (("var",), ("tmp",)):
        return p.state.mem.get(("copyof", x)) == target or p.state.mem.get(x) == target
    return False


def check_refuse(rep, db, f, inst):
    rule = "R-C13-refuse"
    from ..engine import Engine
    try:
        ps = Engine(db).run(f)
    except Inconclusive as ex:
        rep.inconclusive(rule, site(f), str(ex), inst)
        return
    # a FREE slot is never refused: taking slot I may depend on slot I being free and on the slots before it being taken - on nothing
    # else in the key table (e.g. not on the LAST slot being free: after a release in the middle that refuses although a slot is free)
    from .c12 import slot_layout, idx_store
    from .ops import strip_casts as _sc
    lay = slot_layout(db, f)
    unrd = lambda t: t[1] if isinstance(t, tuple) and t[:1] == ("rd",) else t
    for p in ps:
        taken = [idx_store(e, lay, "key") for e in p.events if idx_store(e, lay, "key") is not None]
        if len(taken) != 1 or not (isinstance(taken[0], tuple) and taken[0][:1] == ("c",)):
            continue
        I = taken[0][1]
        for e in p.events:
            if e.kind != "ASSUME":
                continue
            todo = [e.a]
            while todo:
                c = todo.pop()
                if not isinstance(c, tuple):
                    continue
                if c[:1] in (("and",), ("or",), ("not",)):
                    todo += list(c[1:])
                    continue
                if c[:1] != ("cmp",) or len(c) != 4:
                    continue
                for side in (c[2], c[3]):
                    J = lay.index_of("key", _sc(unrd(side)))
                    if isinstance(J, tuple) and J[:1] == ("c",) and J[1] > I:
                        rep.violation(rule, site(f) + " [free slot refused]", "taking slot %d also requires %s (a condition on slot %d): with that slot occupied a registration is refused although slot %d is free - "
                                      "a released function cannot be registered again" % (I, fmt(c)[:70], J[1], I), e.loc or f["loc"], inst)
                        return
    for p in ps:
        r = p.retval
        t = truthy(r) if r is not None else C(0)
        if t == C(1):
            continue
        conds = q.conds_before(p, len(p.events))
        if t != C(0) and t in conds:
            continue
        # an entry of a constant table of function addresses, read at an index proven to be inside the table
        r0 = strip_rd_(r)
        tabkey = lambda g: g if p.state.mem.get(("statictable", g)) is not None else (("global", "static:" + g[1]) if isinstance(g, tuple) and g[:1] == ("global",) else g)
        if isinstance(r0, tuple) and r0[:1] == ("idx",) and isinstance(p.state.mem.get(("statictable", tabkey(r0[1]))), tuple):
            tab = p.state.mem[("statictable", tabkey(r0[1]))]
            inside = any(c[0] == "cmp" and c[1] == "<" and c[2] == r0[2] and c[3][0] == "c" and c[3][1] <= len(tab) for c in conds) and \
                (any(c[0] == "cmp" and c[1] == "<=" and c[2][0] == "c" and c[2][1] >= 0 and c[3] == r0[2] for c in conds) or (isinstance(r0[2], tuple) and r0[2][:1] == ("havoc",) and False))
            if tab and inside and all(truthy(x) == C(1) for x in tab):
                continue
        rep.violation(rule, site(f) + " [no free slot]", "a path returns a null entry point (no free slot) instead of refusing the registration: the owner built from it claims to be registered", f["loc"], inst)
        return
    rep.ok(rule, site(f), "every returning path yields a non-null trampoline (%d paths)" % len(ps), inst)
