"""C06 - integers crossing the ABI boundary keep their value or the operation aborts."""
from .. import facts
from . import ops
from ..common import is_check_fn, stmt_always_aborts, site
from ..interval import Evaluator, Inconclusive, trange, merge, intersect, complement, size
from ..engine import Engine, Inconclusive as EngInconclusive, fmt

INT_TYPES = ["bool", "char", "signed char", "unsigned char", "short", "unsigned short", "int", "unsigned int", "long",
             "unsigned long", "long long", "unsigned long long", "char16_t", "char32_t", "wchar_t"]


def accepted_set(db, f):
    """Walk the instantiated body of convert_type_fundamental<To,From> (helpers and lambdas inlined, every form of abort check
    recognised - sa/astwalk.py): returns (A, final_pieces, nchecks): the exact set of source values that reach the store, and the
    value stored as pieces over A."""
    from ..astwalk import Walker, Hooks, Unhandled, strip
    To = f["params"][0]["t"]
    Fr = f["params"][1]["t"]
    var = f["params"][1]["d"]
    tovar = f["params"][0]["d"]
    state = {"S": [trange(Fr)], "n": 0}
    env = {}
    fin = []
    ev = Evaluator({var}, env, db=db)

    class H(Hooks):
        def check(self, cond, positive, loc):
            T = ev.sat(cond, state["S"])
            state["S"] = T if positive else complement(T, state["S"])
            state["n"] += 1

        def decl(self, v):
            if v.get("failed"):
                raise Inconclusive("failed static_assert in instantiation")

        def assign(self, e):
            l = strip(e["l"])
            # the destination: the `to` parameter itself, or a reference parameter of an inlined helper bound to it
            for _ in range(4):
                if isinstance(l, dict) and l.get("k") == "ref" and l.get("d") != tovar and l.get("d") in env:
                    l = strip(env[l["d"]])
            if isinstance(l, dict) and l.get("k") == "ref" and l.get("d") == tovar and e.get("op") == "=":
                try:
                    fin.append(ev.ev(e["r"], state["S"]))
                except Inconclusive as ex:
                    # the stored value cannot be tabulated (e.g. a narrowing cast wrapping over 2^32 periods because a guard is missing):
                    # the accepted set alone may already decide the instance
                    fin.append(("untabulated", str(ex)))
            elif isinstance(l, dict) and l.get("k") == "ref" and l.get("dk") == "local":
                pass
            else:
                raise Inconclusive("assignment to %s at %s" % ((l or {}).get("n"), e.get("loc")))

        def call(self, e, inlined):
            if not inlined and "cv" not in e and not (e.get("fn") or {}).get("n", "").startswith("std::numeric_limits"):
                raise Inconclusive("call of %s at %s" % ((e.get("fn") or {}).get("n"), e.get("loc")))

        def other(self, e):
            raise Inconclusive("statement expression %s at %s" % (e.get("k"), e.get("loc")))

        def branch(self, st):
            raise Inconclusive("run-time branch at %s" % st.get("loc"))

    try:
        Walker(db, H(), env).walk(f["body"])
    except Unhandled as ex:
        raise Inconclusive(str(ex))
    return state["S"], fin, state["n"]


def check_guards(rep, db, floor, pairs_seen):
    """R-C06-guard / R-C06-float-enum over every instantiation of convert_type_fundamental in db"""
    fns = db.insts("rlbox::detail::convert_type_fundamental")
    rep.require(len(fns) >= floor, "%s: only %d instantiations of convert_type_fundamental (floor %d)" % (db.label, len(fns), floor))
    n_int = 0
    for f in fns:
        To = f["params"][0]["t"] or {}
        Fr = f["params"][1]["t"] or {}
        inst = "%s <- %s" % (To.get("u"), Fr.get("u"))
        if To.get("k") in ("int", "bool") and Fr.get("k") in ("int", "bool"):
            n_int += 1
            pairs_seen.add((To.get("u"), Fr.get("u")))
            try:
                A, fin, nchk = accepted_set(db, f)
            except Inconclusive as ex:
                rep.inconclusive("R-C06-guard", site(f), str(ex), inst)
                continue
            rf, rt = trange(Fr), trange(To)
            want = merge([(max(rf[0], rt[0]), min(rf[1], rt[1]))])
            if len(fin) != 1:
                rep.violation("R-C06-guard", site(f), "expected exactly one store to the destination, found %d" % len(fin), f["loc"], inst)
                continue
            if isinstance(fin[0], tuple) and fin[0][:1] == ("untabulated",):
                extra = complement(want, A)
                if extra:
                    rep.violation("R-C06-guard", site(f), "silent change of value: source values %s pass all checks but are not representable in %s (e.g. %d)" % (extra[:3], To.get("u"), extra[0][0]), f["loc"], inst,
                                  {"accepted": A, "representable": want})
                else:
                    rep.inconclusive("R-C06-guard", site(f), fin[0][1], inst)
                continue
            ident = all((a == 1 and b == 0) or (a == 0 and lo == hi == b) for lo, hi, a, b in fin[0])
            if A == want and ident:
                rep.ok("R-C06-guard", site(f), "accepted=%s stored=identity checks=%d" % (A, nchk), inst, nontrivial=(nchk > 0 or rf != rt))
            else:
                extra = complement(want, A)
                missing = complement(A, want)
                if extra or not ident:
                    bad = extra[0][0] if extra else next(lo for lo, hi, a, b in fin[0] if not ((a == 1 and b == 0) or (a == 0 and lo == hi == b)))
                    what = ("silent change of value: source values %s pass all checks but are not representable in %s (e.g. %d)" % (extra, To.get("u"), bad)) if extra else \
                           ("the stored value differs from the source on accepted values near %d" % bad)
                    rule_site = site(f) + (" [-> bool from 8-bit]" if To.get("k") == "bool" and Fr.get("w") == 8 and Fr.get("k") != "bool" else "")
                    rep.violation("R-C06-guard", rule_site, what, f["loc"], inst, {"accepted": A, "representable": want})
                if missing:
                    rep.violation("R-C06-guard", site(f) + " [spurious abort]", "representable source values %s are rejected" % missing, f["loc"], inst,
                                  {"accepted": A, "representable": want})
        elif To.get("k") == "float" or Fr.get("k") == "float" or To.get("k") == "enum" or Fr.get("k") == "enum":
            # direct assignment only between float types / the same enum type
            ok = (To.get("k") == Fr.get("k")) and (To.get("k") == "float" or To.get("u") == Fr.get("u"))
            if ok:
                rep.ok("R-C06-float-enum", site(f), "same kind", inst, nontrivial=False)
            else:
                rep.violation("R-C06-float-enum", site(f), "conversion between %s and %s instantiates without a check" % (Fr.get("u"), To.get("u")), f["loc"], inst)
    rep.require(n_int >= floor, "%s: only %d integer pairs analysed (floor %d)" % (db.label, n_int, floor))


def run(rep, tier):
    rep.rule("R-C06-guard", "for every ordered pair (To,From) of integer types the set A of source values that pass every abort check before "
             "`to = cast(from)` in convert_type_fundamental<To,From> equals range(From) ∩ range(To) and the stored value equals the source on A "
             "(exact interval-set evaluation over the instantiated AST incl. implicit conversions)")
    rep.rule("R-C06-array", "in every array instantiation of convert_type_fundamental_or_array a bulk byte copy is used only if element width and "
             "signedness agree and both-or-neither element is bool and total sizes agree; otherwise every index is converted by the scalar routine")
    rep.rule("R-C06-float-enum", "floating point / enum instantiations assign directly and only between identical enum types / floating types")
    backends = ["model32"] if tier == "quick" else ["model32", "noop", "model32_dbg"]
    dbs = facts.load_core(backends, ["CONV"], thorough=(tier == "thorough"))
    pairs_seen = set()
    for db in dbs:
        rep.units.append(db.label)
        check_guards(rep, db, 225, pairs_seen)
        check_arrays(rep, db)
    rep.extra["integer_pairs"] = len(pairs_seen)
    rep.rule("R-C06-route", "in the boundary functions (tainted_volatile load/store, tainted<->sandbox conversions, invoke arguments/results, callback arguments/results, struct converters) every store of an integer value that was read "
             "from the other side of the boundary happens inside convert_type_fundamental (event stack), never by a direct assignment between host- and guest-typed storage")
    rep.rule("R-C06-map", "convert_base_types_t maps short/int/long/long long (and unsigned forms) to the backend's types preserving signedness and cv, pointers to the backend pointer type, recurses through arrays, and leaves bool/char/float/enum unchanged (compiler-judged equalities)")
    rdbs = facts.load_core(["model32"], ["PTR", "INVOKE"], thorough=(tier == "thorough"))
    rdbs += facts.load_sigs(["model32"], thorough=(tier == "thorough"))  # call arguments / callback arguments of every integer kind
    for d_ in rdbs:
        rep.units.append(d_.label)
    check_route(rep, rdbs)
    rep.rule("R-C06-derived", "++ / -- on an integer in sandbox memory is `x = x +/- 1` computed in the application type and stored back through the checked conversion (shared analysis with C16's derived-operator rule)")
    n_inc = check_incdec(rep, facts.load_core(["model32"], ["NUM"], thorough=(tier == "thorough")))
    rep.require(n_inc >= 4, "only %d ++/-- instantiations on integers in sandbox memory analysed (floor 4)" % n_inc)
    map_witnesses(rep)
    rep.assumptions += ["LP64 host data model as reported by clang for the analysed target",
                        "abort checks are recognised semantically (any function that aborts/throws unless its bool argument holds)"]


ROUTE_FUNCS = {"rlbox::tainted_volatile::operator=", "rlbox::tainted_volatile::get_raw_value", "rlbox::tainted::get_raw_sandbox_value", "rlbox::tainted::tainted",
               "rlbox::rlbox_sandbox::INTERNAL_invoke_with_func_ptr", "rlbox::rlbox_sandbox::sandbox_callback_interceptor", "rlbox::detail::convert_type_class::run",
               "rlbox::tainted_base_impl::copy_and_verify", "rlbox::tainted_base_impl::copy_and_verify_range"}


def check_incdec(rep, dbs):
    """R-C06-derived: ++ / -- (and op=) on an integer that lives in sandbox memory are `x = x op 1` through the checked conversion - never
    arithmetic on the stored (guest-width) representation, which wraps silently where the checked store aborts"""
    from . import ops
    n = 0
    for db in dbs:
        for f in db.functions:
            if f["dep"] or "body" not in f or not f["n"].startswith(ops.BASE) or f.get("oo") not in ("++", "--"):
                continue
            T = ops.class_T(f) or {}
            if T.get("k") not in ("int", "bool", "enum") or ops.wrapper_kind(f) != "tainted_volatile":
                continue
            ops.check_derived(rep, "C06", db, f, "%s | %s" % (db.label, f["full"][:150]))
            n += 1
    return n


def check_route(rep, dbs):
    """R-C06-route: integer values cross between guest-typed and host-typed storage only inside convert_type_fundamental"""
    from .. import q
    from ..engine import C, subterms, Ev
    from .c09 import root_of
    n = 0
    for db in dbs:
        for f in db.functions:
            if f["dep"] or "body" not in f or f["n"] not in ROUTE_FUNCS:
                continue
            inst = "%s | %s" % (db.label, f["full"][:150])
            if f["n"] == "rlbox::rlbox_sandbox::INTERNAL_invoke_with_func_ptr":
                # an argument that reaches the backend still in its application representation is converted by nothing at all (the
                # backend's own call narrows it): same type-level rule as C11's, reported here as a route violation
                from ..report import RuleView
                from .c11 import check_arg_representation
                check_arg_representation(RuleView(rep, {"R-C11-abi": "R-C06-route"}), db, f, inst)
            try:
                ps = q.paths(db, f)
            except EngInconclusive:
                continue
            bad = None
            cnt = 0
            cls = f["n"].rsplit("::", 1)[0]
            ptypes = {}
            from ..engine import root_param_names
            for pn, pp in zip(root_param_names(f), f["params"]):
                ptypes[pn] = (pp["t"] or {}).get("c") or ""

            def in_sandbox(lv):
                r0 = root_of(lv)
                if not isinstance(r0, tuple):
                    return False
                if r0[:1] == ("deref",):
                    return cls == "rlbox::tainted_volatile" if r0 == ("deref", ("this",)) else True
                if r0[:1] == ("pobj",):
                    return "tainted_volatile<" in ptypes.get(r0[1], "")
                return False

            for p in ps:
                converted = set()
                for e in p.events:
                    if e.kind == "CALL" and (q.short(e.a) == "impl_invoke_with_func_ptr" or e.a == "<indirect>"):
                        # arguments handed to the sandboxed function / to the application callback
                        for a in e.b:
                            vals = [a]
                            if isinstance(a, tuple) and a[:1] in (("tmp",), ("var",)):
                                vals += [p.state.mem.get(a), p.state.mem.get(("fld", a, "data")), p.state.mem.get(("fld", p.state.mem.get(("copyof", a)), "data"))]
                            if any(x is not None and ops.unchecked_conversion(p, x) for x in vals):
                                bad = Ev("STORE", ("var", 0, "argument of " + (q.short(e.a) if e.a != "<indirect>" else "the callback")), next(x for x in vals if x is not None and ops.unchecked_conversion(p, x)), loc=e.loc)
                                break
                        if bad:
                            break
                        cnt += 1
                        continue
                    if e.kind != "STORE" or (e.extra or {}).get("rec"):
                        continue
                    inside = any(nm == "rlbox::detail::convert_type_fundamental" for nm, _l in e.stack)
                    v = e.b
                    srcs = [x for x in subterms(v) if isinstance(x, tuple) and x and x[0] in ("rd", "vrd")]
                    if inside:
                        for x in srcs:
                            converted.add(x)
                        if in_sandbox(e.a) and ops.unchecked_conversion(p, v):
                            bad = e
                            break
                        continue
                    ty = (e.extra or {}).get("t") or {}
                    if ty.get("k") not in ("int", "bool"):
                        continue
                    if v[0] == "c":
                        continue
                    # pointer representations and callback trampolines are C04's / C12's
                    if any(isinstance(x, tuple) and x and ((x[0] in ("call", "ucall") and q.short(x[1] if x[0] == "call" else x[2]).startswith("impl_")) or
                                                           (x[0] == "fld" and x[2] in ("callback_trampoline", "idx"))) for x in subterms(v)):
                        continue
                    dst_sbx = in_sandbox(e.a)
                    # every narrowing / sign-changing conversion contained in a value that reaches sandbox memory must have been
                    # introduced inside the checked conversion routine (not by an unchecked C++ conversion on the way)
                    if dst_sbx and ops.unchecked_conversion(p, v):
                        bad = e
                        break
                    src_sbx = [x for x in srcs if in_sandbox(x[1] if x[0] == "rd" else x[2])]
                    src_app = [x for x in srcs if not in_sandbox(x[1] if x[0] == "rd" else x[2])]
                    crossing = (dst_sbx and any(x not in converted for x in src_app)) or (not dst_sbx and any(x not in converted for x in src_sbx))
                    if not crossing:
                        continue
                    bad = e
                    break
                cnt += len(converted)
                if not bad and f["n"].endswith("::sandbox_callback_interceptor") and isinstance(p.retval, tuple) and ops.unchecked_conversion(p, p.retval):
                    # the value handed back to the sandbox by the callback interceptor
                    bad = Ev("STORE", ("var", 0, "value returned to the sandbox"), p.retval, loc=f["loc"])
                if bad:
                    break
            if bad:
                rep.violation("R-C06-route", site(f), "an integer value on its way across the ABI boundary is converted by a plain C++ conversion/assignment (%s := %s) outside the checked conversion routine" % (fmt(bad.a)[:60], fmt(bad.b)[:80]), bad.loc, inst)
            elif cnt:
                n += 1
                rep.ok("R-C06-route", site(f), "%d integer stores, all inside convert_type_fundamental" % cnt, inst)
    rep.require(n >= 100, "only %d boundary functions with integer stores analysed (floor 100)" % n)


def map_witnesses(rep):
    """R-C06-map: convert_base_types_t maps each integer type to the backend's corresponding type (compiler-judged type equalities)"""
    from .. import witness
    from ..witness import W, TYPE_MARK
    SH, IN, LO, LL, PT = "int16_t", "int32_t", "int32_t", "int64_t", "uint32_t"
    conv = lambda T: "detail::convert_base_types_t<%s, %s, %s, %s, %s, %s>" % (T, SH, IN, LO, LL, PT)
    table = {"short": SH, "unsigned short": "std::make_unsigned_t<%s>" % SH, "int": IN, "unsigned int": "std::make_unsigned_t<%s>" % IN, "long": LO, "unsigned long": "std::make_unsigned_t<%s>" % LO,
             "long long": LL, "unsigned long long": "std::make_unsigned_t<%s>" % LL, "bool": "bool", "char": "char", "signed char": "signed char", "unsigned char": "unsigned char",
             # char16_t / char32_t are unsigned integer types and follow the unsigned rule: the unsigned form of the backend type of their signed counterpart (short / int)
             "char16_t": "std::make_unsigned_t<%s>" % SH, "char32_t": "std::make_unsigned_t<%s>" % IN, "float": "float", "double": "double", "VbEnum": "VbEnum", "void": "void",
             "int*": PT, "void*": PT, "const char*": PT, "int**": PT, "int (*)(int)": PT}
    ws = []
    for T, G in table.items():
        ws.append(W("must_accept", "static_assert(std::is_same_v<%s, %s>, \"%s\");" % (conv(T), G, TYPE_MARK), "%s -> %s" % (T, G), group="map"))
        if T not in ("void",) and "(*)" not in T:
            ws.append(W("must_accept", "static_assert(std::is_same_v<%s, const %s>, \"%s\");" % (conv("const " + T) if "*" not in T else conv(T + " const"), G, TYPE_MARK), "const %s -> const %s" % (T, G), group="map"))
        if T not in ("void",) and "*" not in T:
            ws.append(W("must_accept", "static_assert(std::is_same_v<%s, %s[3]>, \"%s\");" % (conv(T + "[3]"), G, TYPE_MARK), "%s[3] -> %s[3]" % (T, G), group="map"))
            ws.append(W("must_accept", "static_assert(std::is_same_v<%s, %s[2][3]>, \"%s\");" % (conv(T + "[2][3]"), G, TYPE_MARK), "%s[2][3] -> %s[2][3]" % (T, G), group="map"))
    ws.append(W("must_accept", "static_assert(std::is_same_v<%s, %s[4]>, \"%s\");" % (conv("int*[4]"), PT, TYPE_MARK), "int*[4] -> uint32_t[4]", group="map"))
    # signedness and width are preserved for the model in use through the public alias as well
    for T, G in (("long", "int32_t"), ("unsigned long", "uint32_t"), ("short", "int16_t"), ("long long", "int64_t"), ("char*", "uint32_t")):
        ws.append(W("must_accept", "static_assert(std::is_same_v<SB<@N>::convert_to_sandbox_equivalent_nonclass_t<%s>, %s>, \"%s\");" % (T, G, TYPE_MARK), "sandbox alias: %s -> %s" % (T, G), group="map"))
    for i, w in enumerate(ws):
        w.n = 1000 + i
    res, unattr = witness.judge(ws, "clang++", batch=200)
    rep.require(not unattr, "unattributed compiler errors in the type-map corpus: %s" % unattr[:2])
    for w in ws:
        verdict, msgs = res[w.n]
        if witness.alarm(w, verdict):
            verdict, msgs = witness.confirm(w)
        if witness.alarm(w, verdict):
            rep.violation("R-C06-map", "rlbox::detail::convert_base_types_t", "type mapping %s does not hold (%s)" % (w.desc, (msgs[:1] or [""])[0][:160]), "W:%d" % w.n, w.desc)
        else:
            rep.ok("R-C06-map", "rlbox::detail::convert_base_types_t", w.desc, w.desc)
    rep.extra["map_witnesses"] = len(ws)


def check_arrays(rep, db, floor=10):
    fns = [f for f in db.insts("rlbox::detail::convert_type_fundamental_or_array")]
    n = 0
    for f in fns:
        To = f["params"][0]["t"] or {}
        Fr = f["params"][1]["t"] or {}

        def elem(t):
            # array or std::array -> element info from template args / type
            return t

        tt = f.get("targt") or []
        if len(tt) < 2 or not tt[0] or not tt[1]:
            continue
        T0, T1 = tt[0], tt[1]
        is_arr = lambda t: t.get("k") == "array" or (t.get("k") == "rec" and (t.get("rn") or "").startswith("std::array"))
        if not (is_arr(T0) and is_arr(T1)):
            continue
        n += 1
        inst = "%s <- %s" % (T0.get("c"), T1.get("c"))
        try:
            paths = Engine(db).run(f)
        except EngInconclusive as ex:
            rep.inconclusive("R-C06-array", site(f), str(ex), inst)
            continue
        bulk = [e for p in paths for e in p.events if e.kind == "CALL" and (e.a or "").split("::")[-1] in ("memcpy", "memmove", "__builtin_memcpy")]
        elemwise = [e for p in paths for e in p.events if e.kind == "STORE" and e.loop > 0]
        # element types: strip array dims from canonical names via the scalar conversions reached
        scal = [e for p in paths for e in p.events if e.kind == "STORE" and e.extra and e.extra.get("t")]
        def base_el(t):
            c = t.get("c")
            if t.get("k") == "array":
                return t.get("el")
            return c
        if bulk:
            # allowed only when element representation agrees; decide from the types
            e0, e1 = el_info(db, T0), el_info(db, T1)
            if e0 is None or e1 is None:
                rep.inconclusive("R-C06-array", site(f), "cannot determine element types", inst)
                continue
            same = e0["w"] == e1["w"] and e0.get("sg") == e1.get("sg") and (e0["k"] == "bool") == (e1["k"] == "bool") and T0.get("sz") == T1.get("sz")
            sz_ok = all(len(e.b) == 3 and e.b[2] == ("c", T0.get("sz")) for e in bulk)
            if same and sz_ok:
                rep.ok("R-C06-array", site(f), "bulk copy of %s bytes between identical element representations" % T0.get("sz"), inst)
            else:
                rep.violation("R-C06-array", site(f), "bulk byte copy between arrays whose elements differ in width/signedness/bool-ness or with a wrong size "
                              "(%s vs %s)" % (e0, e1), f["loc"], inst)
        else:
            if elemwise:
                why = elementwise_complete(db, f, paths, T0, T1)
                if why is None:
                    rep.ok("R-C06-array", site(f), "element-wise conversion of every element (dims %s)" % dims_of(T0), inst)
                else:
                    rep.violation("R-C06-array", site(f) + " [coverage]", why, f["loc"], inst)
            else:
                rep.violation("R-C06-array", site(f), "array conversion neither copies bytes nor converts each element", f["loc"], inst)
    rep.require(n >= floor, "%s: only %d array instantiations of convert_type_fundamental_or_array (floor %d)" % (db.label, n, floor))


def dims_of(t):
    import re
    c = (t.get("c") or "").replace("const ", "").replace("volatile ", "")
    dims = []
    while True:
        m = re.match(r"^std::array<(.*), (\d+)>$", c.strip())
        if not m:
            break
        dims.append(int(m.group(2)))
        c = m.group(1)
    dims += [int(x) for x in re.findall(r"\[(\d+)\]", c)]
    return dims


def index_path(lv, root):
    out = []
    while isinstance(lv, tuple) and lv and lv[0] == "idx":
        out.append(lv[2])
        lv = lv[1]
    return (list(reversed(out)) if lv == root else None)


def elementwise_complete(db, f, paths, T0, T1):
    """every element of the destination is written from the element with the same indices of the source:
    one index per dimension, each loop variable running 0 .. extent-1 in steps of 1"""
    from .. import q
    from ..engine import C, lin, subterms
    dims = dims_of(T0)
    to, fr = ("pobj", f["params"][0]["n"]), ("pobj", f["params"][1]["n"])
    seen_store = False
    for p in paths:
        for i, e in enumerate(p.events):
            if e.kind != "STORE" or (e.extra or {}).get("rec"):
                continue
            if e.a[0] == "var":
                continue
            ip = index_path(e.a, to)
            if ip is None:
                if e.loop > 0 and e.a[0] in ("idx", "deref"):
                    return "an element store goes to %s, which is not an element of the destination array addressed with one index per dimension" % fmt(e.a)[:100]
                continue
            seen_store = True
            if len(ip) != len(dims):
                return "destination of dimensions %s is written with %d index(es): elements beyond the first dimension's extent are never converted" % (dims, len(ip))
            for k, iv in enumerate(ip):
                if not q.loop_bound_ok(p, i, iv, dims[k]):
                    return "index %d of the element loop is not bounded by the extent %d of that dimension" % (k, dims[k])
            srcs = []
            for x in subterms(e.b):
                if isinstance(x, tuple) and x and x[0] in ("rd", "vrd"):
                    lv = x[1] if x[0] == "rd" else x[2]
                    sp = index_path(lv, fr)
                    if sp is not None:
                        srcs.append(sp)
            if not srcs or any(sp != ip for sp in srcs):
                return "element %s of the destination is not converted from the element with the same indices of the source" % [fmt(x) for x in ip]
    if not seen_store:
        return "no element of the destination array is written"
    return None


def el_info(db, t):
    """innermost element type info of a C array / std::array type"""
    import re
    c = t.get("c") or ""
    if t.get("k") == "rec":
        m = re.match(r"std::array<(.*), \d+>$", c.replace("const ", "").replace("volatile ", ""))
        if not m:
            return None
        name = m.group(1)
        while True:
            m2 = re.match(r"std::array<(.*), \d+>$", name)
            if not m2:
                break
            name = m2.group(1)
    else:
        name = re.sub(r"\s*(\[\d+\])+$", "", c)
    name = name.replace("const ", "").replace("volatile ", "").strip()
    for ty in db.types:
        if ty and ty.get("u") == name and ty.get("k") in ("int", "bool", "enum", "float"):
            return {"k": ty["k"], "w": ty.get("w"), "sg": ty.get("sg"), "name": name}
    return None
