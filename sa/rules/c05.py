"""C05 - tainted pointer arithmetic stays in the sandbox and uses the sandbox stride."""
from .. import facts, q, abi
from ..common import site
from . import ops


def run(rep, tier):
    rep.rule("R-C05-check", "in every pointer instantiation of operator+/-/[] the produced address is exactly the value covered by a dominating abort check is_in_same_sandbox(base, target) whose base is the operand's pointer value")
    rep.rule("R-C05-null", "a dominating abort check base != null precedes the containment check (a same-sandbox test against a null base proves nothing)")
    rep.rule("R-C05-stride", "target - base == +/- s * index with the sign of the operator being defined and s equal to the pointee's size under the sandbox ABI as computed by the checker's independent ABI model")
    rep.rule("R-C05-derived", "op= is `this = this op rhs`, prefix ++/-- use +1/-1, postfix returns the snapshot and applies the prefix operator of the SAME sign")
    rep.rule("R-C05-ovf", "index*stride feeding the containment check cannot wrap modulo 2^64 (index bounded) unless the stride is 1")
    rep.rule("W-C05-size", "sizeof(tainted_volatile<X>) equals the guest size of X for every instantiated X (record layout facts vs ABI model)")
    backends = ["model32", "noop"] if tier == "quick" else ["model32", "model32gi", "noop", "dylib"]
    dbs = facts.load_core(backends, ["PTR", "INVOKE"], thorough=(tier == "thorough"))
    n_arith = n_derived = n_size = 0
    for db in dbs:
        rep.units.append(db.label)
        for f in db.functions:
            if f["dep"] or "body" not in f or not f["n"].startswith(ops.BASE):
                continue
            T = ops.class_T(f) or {}
            if T.get("k") != "ptr":
                continue
            oo = f.get("oo")
            inst = "%s | %s" % (db.label, f["full"][:150])
            if oo in ("+", "-") and len(f["params"]) == 1:
                ops.check_pointer_arith(rep, db, f, inst, db.label)
                n_arith += 1
            elif oo == "[]" and f.get("constm"):
                ops.check_pointer_arith(rep, db, f, inst, db.label)
                n_arith += 1
            elif oo == "[]":
                check_forward(rep, db, f, inst)
            elif oo in ("+=", "-=", "++", "--"):
                ops.check_derived(rep, "C05", db, f, inst)
                n_derived += 1
        # W-C05-size
        for r in db.records:
            if r["dep"] or r["n"] != "rlbox::tainted_volatile" or "size" not in r:
                continue
            tt = r.get("targt") or []
            if not tt or not tt[0]:
                continue
            X = tt[0]
            try:
                want = abi.size_align(db, X.get("c"), abi.abi_of(db.label))
            except abi.Unknown as ex:
                continue
            n_size += 1
            if (r["size"], r["align"]) == want:
                rep.ok("W-C05-size", "rlbox::tainted_volatile", "sizeof/alignof(tainted_volatile<%s>) == %s" % (X.get("c"), want), "%s | %s" % (db.label, X.get("c")))
            else:
                rep.violation("W-C05-size", "rlbox::tainted_volatile", "tainted_volatile<%s> has size/align %s, the sandbox ABI prescribes %s" % (X.get("c"), (r["size"], r["align"]), want), r["loc"], "%s | %s" % (db.label, X.get("c")))
    rep.require(n_arith >= 40, "only %d pointer arithmetic instantiations analysed (floor 40)" % n_arith)
    rep.require(n_derived >= 40, "only %d derived pointer operator instantiations analysed (floor 40)" % n_derived)
    rep.require(n_size >= 30, "only %d tainted_volatile layouts compared (floor 30)" % n_size)
    rep.extra.update({"pointer_arith_instantiations": n_arith, "derived_instantiations": n_derived, "layouts": n_size})
    rep.assumptions += ["impl_is_in_same_sandbox is exact (backend contract)", "natural alignment, ILP32-like guest data model for the model32 backend; host model for noop/dylib"]


def check_forward(rep, db, f, inst):
    """non-const operator[] forwards to the const overload with the same index"""
    from ..engine import Engine, Inconclusive
    try:
        ps = Engine(db, no_inline={"operator[]"}).run(f)
    except Inconclusive as ex:
        rep.inconclusive("R-C05-check", site(f), str(ex), inst)
        return
    for p in ps:
        cs = [e for e in p.events if e.kind == "CALL" and q.short(e.a) == "operator[]"]
        rhs = ("pobj", f["params"][0]["n"])
        if len(cs) == 1 and cs[0].c in (("this",), ("addr", ops.THIS_OBJ)) and cs[0].b == [rhs] and p.retval == (cs[0].extra or {}).get("ret"):
            rep.ok("R-C05-check", site(f) + " [non-const]", "forwards to the const overload", inst, nontrivial=False)
        else:
            rep.violation("R-C05-check", site(f) + " [non-const]", "non-const operator[] does not forward `this[rhs]` to the checked const overload", f["loc"], inst)
