"""C16 - operators on tainted numbers compute exactly what the plain operators compute."""
from .. import facts, q
from ..common import site
from . import ops


def is_num(T):
    return (T or {}).get("k") in ("int", "bool", "enum", "float")


def type_corpus(tier):
    from ..witness import W, TYPE_MARK
    from .c01 import lv
    types = ["int", "unsigned char", "long", "unsigned long long", "bool", "double"] if tier == "quick" else \
            ["int", "unsigned char", "signed char", "char", "short", "unsigned short", "unsigned int", "long", "unsigned long", "long long", "unsigned long long", "bool", "double", "float", "char16_t"]
    floats = {"double", "float"}
    ws = []
    arith = ops.ARITH
    for A in types:
        for B in types:
            for op in arith + ops.CMPS:
                intonly = op in ("%", "^", "&", "|", "<<", ">>")
                plain_ok = not (intonly and (A in floats or B in floats))
                forms = [("tainted", "tainted"), ("tainted", "plain"), ("plain", "tainted"), ("tainted_volatile", "tainted"), ("tainted", "tainted_volatile")]
                if tier != "quick":
                    forms += [("tainted_volatile", "plain"), ("plain", "tainted_volatile")]
                for fa, fb in forms:
                    a = lv(fa, A) if fa != "plain" else "vb_lv<%s>()" % A
                    b = lv(fb, B) if fb != "plain" else "vb_lv<%s>()" % B
                    desc = "%s<%s> %s %s<%s>" % (fa, A, op, fb, B)
                    if not plain_ok:
                        ws.append(W("must_reject", "auto&& r = (%s %s %s); (void)r;" % (a, op, b), desc + " [plain expression is ill-formed]", group="types-reject"))
                        continue
                    plain = "decltype(std::declval<%s>() %s std::declval<%s>())" % (A, op, B)
                    if op in ops.CMPS:
                        vol = "tainted_volatile" in (fa, fb)
                        exp = "tainted_boolean_hint" if vol else "tainted<bool, M<@N>>"
                    else:
                        exp = "tainted<%s, M<@N>>" % plain
                    body = "auto&& r = (%s %s %s); static_assert(std::is_same_v<std::remove_cv_t<std::remove_reference_t<decltype(r)>>, %s>, \"%s\"); (void)r;" % (a, op, b, exp, TYPE_MARK)
                    ws.append(W("type_if_compiles", body, desc, group="types"))
    return ws


def run_types(rep, tier):
    from .. import witness
    from .c01 import generic_site
    rep.rule("W-C16-types", "for every operator x operand-wrapper combination x type pair that compiles, the result type is exactly tainted<decltype(plain_a OP plain_b)> "
             "(comparisons: tainted<bool>, or tainted_boolean_hint when sandbox-resident data is involved); combinations whose plain expression is ill-formed are rejected. Compiler-judged")
    ws = type_corpus(tier)
    for i, w in enumerate(ws):
        w.n = 1000 + i
    res, unattr = witness.judge(ws, "clang++", batch=100)
    rep.require(len(unattr) == 0, "unattributed compiler errors in the type corpus: %s" % unattr[:2])
    st = {}
    for w in ws:
        verdict, msgs = res[w.n]
        bad = witness.alarm(w, verdict) if w.kind == "must_reject" else verdict.startswith("oracle:")
        if bad:
            verdict, msgs = witness.confirm(w)
            bad = witness.alarm(w, verdict) if w.kind == "must_reject" else verdict.startswith("oracle:")
        st[verdict.split(":")[0]] = st.get(verdict.split(":")[0], 0) + 1
        if bad:
            what = "RLBox accepts an operand combination the plain operator rejects" if w.kind == "must_reject" else "the wrapped result type differs from the type of the plain expression (%s)" % (msgs[:1] or [""])[0][:200]
            rep.violation("W-C16-types", "form: " + generic_site(w.desc), "%s: %s" % (w.desc, what), "W:%d" % w.n, w.desc)
        else:
            rep.ok("W-C16-types", "form: " + generic_site(w.desc), "%s -> %s" % (w.desc, verdict), w.desc, nontrivial=(verdict == "accept"))
    rep.extra["type_witnesses"] = len(ws)
    rep.extra["type_verdicts"] = st
    rep.require(st.get("accept", 0) >= 1000, "only %d type witnesses compile" % st.get("accept", 0))


def run(rep, tier):
    rep.rule("R-C16-wiring", "for each instantiated member/free operator on numeric wrappers the value stored in the returned wrapper is exactly `value(this) OP value(rhs)` "
             "(for plain-left forms `lhs OP value(rhs)` in that order) where OP is the operator being defined and value(x) is the wrapper's (ABI-converted) content; "
             "comparisons, unary - ~ ! likewise. Same operator + same operand order + same operand types as the plain expression implies the same value for every input")
    rep.rule("R-C16-derived", "compound assignments are `this = this OP rhs` with the same OP; prefix ++/-- add/subtract 1; postfix returns the snapshot and applies the prefix operator of the same sign")
    rep.rule("R-C16-unwrap", "unwrap_value returns the wrapper's own value (INTERNAL_unverified_safe) or the plain argument unchanged")
    backends = ["model32"] if tier == "quick" else ["model32", "noop"]
    dbs = facts.load_core(backends, ["NUM"], thorough=(tier == "thorough"))
    n = {"member": 0, "free": 0, "unary": 0, "derived": 0}
    seen_ops = set()
    for db in dbs:
        rep.units.append(db.label)
        for f in db.functions:
            if f["dep"] or "body" not in f or "oo" not in f:
                continue
            oo = f["oo"]
            inst = "%s | %s" % (db.label, f["full"][:170])
            if f["n"].startswith(ops.BASE):
                T = ops.class_T(f)
                if not is_num(T):
                    continue
                np_ = len(f["params"])
                if oo in ops.ARITH + ops.CMPS + ops.LOGIC and np_ == 1:
                    # the `const T_Rhs&&` overloads of && / || are static failures and never instantiate
                    ops.check_numeric_member_binop(rep, "C16", db, f, inst)
                    n["member"] += 1
                    seen_ops.add(oo)
                elif oo in ("-", "~", "!") and np_ == 0:
                    ops.check_unary(rep, "C16", db, f, inst)
                    n["unary"] += 1
                    seen_ops.add("u" + oo)
                elif oo in ("++", "--") or (oo.endswith("=") and oo[:-1] in ops.ARITH):
                    ops.check_derived(rep, "C16", db, f, inst)
                    n["derived"] += 1
                    seen_ops.add(oo + ("post" if np_ == 1 and oo in ("++", "--") else ""))
            elif f["n"].startswith("rlbox::operator") and len(f["params"]) == 2 and oo in ops.ARITH + ops.CMPS + ops.LOGIC:
                ops.check_free_binop(rep, "C16", db, f, inst)
                n["free"] += 1
                seen_ops.add("free" + oo)
    floors = {"member": 800, "free": 150, "unary": 15, "derived": 120}
    for k, v in floors.items():
        rep.require(n[k] >= v, "only %d %s operator instantiations analysed (floor %d)" % (n[k], k, v))
    need = set(ops.ARITH + ops.CMPS + ops.LOGIC) | {"u-", "u~", "u!", "++", "--", "++post", "--post"} | {o + "=" for o in ops.ARITH} | {"free" + o for o in ops.ARITH + ops.CMPS}
    missing = need - seen_ops
    rep.require(not missing, "operators without any analysed instantiation: %s" % sorted(missing))
    rep.extra.update({"instantiations": n, "operators_seen": sorted(seen_ops)})
    run_types(rep, tier)
    rep.assumptions += ["undefined behaviour of the plain operator is outside the property", "value-level equality follows from identical operator, operand order and operand types (no sampling)"]
