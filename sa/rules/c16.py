"""C16 - operators on tainted numbers compute exactly what the plain operators compute."""
from .. import facts, q
from ..common import site
from . import ops


def is_num(T):
    return (T or {}).get("k") in ("int", "bool", "enum", "float")


def run(rep, tier):
    rep.rule("R-C16-wiring", "for each instantiated member/free operator on numeric wrappers the value stored in the returned wrapper is exactly `value(this) OP value(rhs)` "
             "(for plain-left forms `lhs OP value(rhs)` in that order) where OP is the operator being defined and value(x) is the wrapper's (ABI-converted) content; "
             "comparisons, unary - ~ ! likewise. Same operator + same operand order + same operand types as the plain expression implies the same value for every input")
    rep.rule("R-C16-derived", "compound assignments are `this = this OP rhs` with the same OP; prefix ++/-- add/subtract 1; postfix returns the snapshot and applies the prefix operator of the same sign")
    rep.rule("R-C16-unwrap", "unwrap_value returns the wrapper's own value (INTERNAL_unverified_safe) or the plain argument unchanged")
    backends = ["model32"] if tier == "quick" else ["model32", "noop"]
    dbs = facts.load_core(backends, ["NUM"], thorough=(tier == "thorough"))
    n = {"member": 0, "free": 0, "unary": 0, "derived": 0}
    seen_ops = set()
    for db in dbs:
        rep.units.append(db.label)
        for f in db.functions:
            if f["dep"] or "body" not in f or "oo" not in f:
                continue
            oo = f["oo"]
            inst = "%s | %s" % (db.label, f["full"][:170])
            if f["n"].startswith(ops.BASE):
                T = ops.class_T(f)
                if not is_num(T):
                    continue
                np_ = len(f["params"])
                if oo in ops.ARITH + ops.CMPS + ops.LOGIC and np_ == 1:
                    # the `const T_Rhs&&` overloads of && / || are static failures and never instantiate
                    ops.check_numeric_member_binop(rep, "C16", db, f, inst)
                    n["member"] += 1
                    seen_ops.add(oo)
                elif oo in ("-", "~", "!") and np_ == 0:
                    ops.check_unary(rep, "C16", db, f, inst)
                    n["unary"] += 1
                    seen_ops.add("u" + oo)
                elif oo in ("++", "--") or (oo.endswith("=") and oo[:-1] in ops.ARITH):
                    ops.check_derived(rep, "C16", db, f, inst)
                    n["derived"] += 1
                    seen_ops.add(oo + ("post" if np_ == 1 and oo in ("++", "--") else ""))
            elif f["n"].startswith("rlbox::operator") and len(f["params"]) == 2 and oo in ops.ARITH + ops.CMPS + ops.LOGIC:
                ops.check_free_binop(rep, "C16", db, f, inst)
                n["free"] += 1
                seen_ops.add("free" + oo)
    floors = {"member": 800, "free": 150, "unary": 15, "derived": 120}
    for k, v in floors.items():
        rep.require(n[k] >= v, "only %d %s operator instantiations analysed (floor %d)" % (n[k], k, v))
    need = set(ops.ARITH + ops.CMPS + ops.LOGIC) | {"u-", "u~", "u!", "++", "--", "++post", "--post"} | {o + "=" for o in ops.ARITH} | {"free" + o for o in ops.ARITH + ops.CMPS}
    missing = need - seen_ops
    rep.require(not missing, "operators without any analysed instantiation: %s" % sorted(missing))
    rep.extra.update({"instantiations": n, "operators_seen": sorted(seen_ops)})
    rep.assumptions += ["undefined behaviour of the plain operator is outside the property", "value-level equality follows from identical operator, operand order and operand types (no sampling)"]
