"""Ownership typestate rules shared by C13 (sandbox_callback) and C15 (app_pointer)."""
from .. import q
from ..engine import Engine, Inconclusive, C, fmt, cmp_, subterms
from ..common import site

THIS_OBJ = ("deref", ("this",))


def record_of(db, f):
    return db.rec_by_id.get(f.get("rid"))


def field_names(rec):
    return [fl["n"] for fl in rec["fields"]]


def this_field_stores(p):
    """index, field, value for stores into fields of *this"""
    out = []
    for i, e in enumerate(p.events):
        if e.kind == "STORE" and e.a[0] == "fld" and e.a[1] == THIS_OBJ:
            out.append((i, e.a[2], e.b))
    return out


def check_move_obj(rep, prop, db, f, inst, other_name=None):
    """move_obj / move ctor: every field transferred from other and every field of other reset"""
    rule = "R-%s-move" % prop
    rec = record_of(db, f)
    if rec is None:
        rep.inconclusive(rule, site(f), "record not found", inst)
        return
    fields = field_names(rec)
    try:
        ps = q.paths(db, f)
    except Inconclusive as ex:
        rep.inconclusive(rule, site(f), str(ex), inst)
        return
    other = ("pobj", f["params"][0]["n"])
    for p in ps:
        got, reset = {}, {}
        for e in p.events:
            if e.kind == "STORE" and e.a[0] == "fld":
                if e.a[1] == THIS_OBJ:
                    got[e.a[2]] = e.b
                elif e.a[1] == other:
                    reset[e.a[2]] = e.b
        bad = []
        for fl in fields:
            if got.get(fl) != ("rd", ("fld", other, fl)):
                bad.append("field '%s' is not taken from the source (got %s)" % (fl, fmt(got.get(fl)) if fl in got else "nothing"))
            if reset.get(fl) != C(0):
                bad.append("field '%s' of the source is not reset (the source stays an owner)" % fl)
        if bad:
            rep.violation(rule, site(f), "; ".join(bad), f["loc"], inst)
            return
    rep.ok(rule, site(f), "all %d fields transferred and the source reset: %s" % (len(fields), fields), inst)


def check_move_assign(rep, prop, db, f, inst, release_pred, registered_field, reg_is_nonzero=True):
    """move assignment: on the this != &other path the current registration is released before it is overwritten"""
    rule = "R-%s-move" % prop
    try:
        ps = q.paths(db, f)
    except Inconclusive as ex:
        rep.inconclusive(rule, site(f), str(ex), inst)
        return
    other = ("pobj", f["params"][0]["n"])
    n_other = 0
    for p in ps:
        stores = this_field_stores(p)
        if not stores:
            continue  # self-assignment path
        n_other += 1
        first = stores[0][0]
        regv = ("rd", ("fld", THIS_OBJ, registered_field))
        conds = q.conds_before(p, first)
        unreg = cmp_("==", regv, C(0))
        released = any(release_pred(e) for e in p.events[:first])
        if unreg in conds or released:
            continue
        rep.violation(rule, site(f) + " [overwrite]", "move assignment overwrites a live owner without releasing its registration first "
                      "(no release call and no `%s == 0` test dominates the first field store)" % registered_field, f["loc"], inst)
        return
    if n_other == 0:
        rep.violation(rule, site(f), "move assignment never transfers", f["loc"], inst)
        return
    rep.ok(rule, site(f) + " [overwrite]", "current registration released before overwrite on every transferring path (%d paths)" % n_other, inst)
    # self assignment guard
    if not any(not this_field_stores(p) for p in ps):
        rep.violation(rule, site(f) + " [self]", "self move-assignment is not a no-op", f["loc"], inst)


def check_release(rep, prop, db, f, inst, release_pred, registered_field, fields):
    """destructor / unregister: releases iff registered, then resets every field"""
    rule = "R-%s-release" % prop
    try:
        ps = q.paths(db, f)
    except Inconclusive as ex:
        rep.inconclusive(rule, site(f), str(ex), inst)
        return
    regv = ("rd", ("fld", THIS_OBJ, registered_field))
    seen_release = False
    for p in ps:
        conds = q.conds_before(p, len(p.events))
        if cmp_("==", regv, C(0)) in conds:
            if any(release_pred(e) for e in p.events):
                rep.violation(rule, site(f), "releases although not registered", f["loc"], inst)
                return
            continue
        if cmp_("!=", regv, C(0)) not in conds:
            rep.violation(rule, site(f), "a path neither tests `%s` nor is guarded by it" % registered_field, f["loc"], inst)
            return
        rel = [i for i, e in enumerate(p.events) if release_pred(e)]
        swallowed = any(e.kind == "ASSUME" and q.mentions(e.a, lambda x: isinstance(x, tuple) and x[:1] == ("ucall",) and q.short(x[2]) == "load") for e in p.events)
        if rel:
            seen_release = True
        elif not swallowed:
            rep.violation(rule, site(f), "registered owner is destroyed without reaching the release call", f["loc"], inst)
            return
        resets = {fl: v for i, fl, v in this_field_stores(p)}
        missing = [fl for fl in fields if resets.get(fl) != C(0)]
        if missing:
            rep.violation(rule, site(f), "after release the fields %s are not reset" % missing, f["loc"], inst)
            return
    if not seen_release:
        rep.violation(rule, site(f), "no path reaches the release call", f["loc"], inst)
        return
    rep.ok(rule, site(f), "releases iff registered and resets all fields", inst)
