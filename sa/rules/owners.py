"""Ownership typestate rules shared by C13 (sandbox_callback) and C15 (app_pointer)."""
from .. import q
from ..engine import Engine, Inconclusive, C, fmt, cmp_, subterms, strip_targs_name
from ..common import site

THIS_OBJ = ("deref", ("this",))


def record_of(db, f):
    return db.rec_by_id.get(f.get("rid"))


def field_names(rec, db=None):
    """the data members that make up the owner's state; a member that only groups others (a nested aggregate of scalars, see
    Engine.nested_state_members) stands for the members it groups"""
    out = []
    for fl in rec["fields"]:
        ft = fl.get("t") or {}
        sub = None
        if db is not None and ft.get("k") == "rec" and strip_targs_name(ft.get("rn") or "").startswith(strip_targs_name(rec.get("n") or "?") + "::") and fl["n"] in Engine(db).nested_state_members():
            sub = db.rec_by_id.get(ft.get("rid"))
        out += [x["n"] for x in sub["fields"]] if sub else [fl["n"]]
    return out


def this_field_stores(p):
    """index, field, value for stores into fields of *this"""
    out = []
    for i, e in enumerate(p.events):
        if e.kind == "STORE" and e.a[0] == "fld" and e.a[1] == THIS_OBJ:
            out.append((i, e.a[2], e.b))
    return out


def is_transfer_member(f, cls):
    """the move constructor of cls, or a (private) helper that takes over another object of the same class: a non-static member
    other than operator= with exactly one parameter that is a reference to cls - whatever it is called"""
    if not f["n"].startswith(cls + "::") or f.get("static") or len(f["params"]) != 1 or f["sn"].startswith("operator"):
        return False
    t = f["params"][0]["t"] or {}
    if not t.get("ref"):
        return False
    c = (t.get("c") or "").replace("const ", "")
    return c.split("<")[0].strip(" &") == cls and "const" not in (t.get("c") or "")


def check_move_obj(rep, prop, db, f, inst, other_name=None):
    """move_obj / move ctor: every field transferred from other and every field of other reset"""
    rule = "R-%s-move" % prop
    rec = record_of(db, f)
    if rec is None:
        rep.inconclusive(rule, site(f), "record not found", inst)
        return
    fields = field_names(rec, db)
    try:
        ps = q.paths(db, f)
    except Inconclusive as ex:
        rep.inconclusive(rule, site(f), str(ex), inst)
        return
    other = ("pobj", f["params"][0]["n"])
    n_transfer = 0
    for p in ps:
        if f.get("kind") == "ctor":
            # a constructor written as "start empty, then assign": the assignment's self-identity branch (`this == &other`) concerns
            # an object constructed from itself, which no program can do with a live owner - the transferring path carries the obligation
            conds = q.conds_before(p, len(p.events))
            if any(isinstance(c, tuple) and c[0] == "cmp" and c[1] == "==" and {c[2], c[3]} == {("this",), ("addr", other)} for c in conds):
                continue
        n_transfer += 1
        got, reset = {}, {}
        for e in p.events:
            if e.kind == "STORE" and e.a[0] == "fld":
                if e.a[1] == THIS_OBJ:
                    got[e.a[2]] = e.b
                elif e.a[1] == other:
                    reset[e.a[2]] = e.b
        bad = []
        for fl in fields:
            if got.get(fl) != ("rd", ("fld", other, fl)):
                bad.append("field '%s' is not taken from the source (got %s)" % (fl, fmt(got.get(fl)) if fl in got else "nothing"))
            if reset.get(fl) != C(0):
                bad.append("field '%s' of the source is not reset (the source stays an owner)" % fl)
        if bad:
            rep.violation(rule, site(f), "; ".join(bad), f["loc"], inst)
            return
    if not n_transfer:
        rep.violation(rule, site(f), "no path of the move constructor transfers the registration", f["loc"], inst)
        return
    rep.ok(rule, site(f), "all %d fields transferred and the source reset: %s" % (len(fields), fields), inst)


def check_move_assign(rep, prop, db, f, inst, release_pred, registered_field, reg_is_nonzero=True):
    """move assignment: on the this != &other path the current registration is released before it is overwritten"""
    rule = "R-%s-move" % prop
    try:
        ps = q.paths(db, f)
    except Inconclusive as ex:
        rep.inconclusive(rule, site(f), str(ex), inst)
        return
    other = ("pobj", f["params"][0]["n"])
    n_other = 0
    for p in ps:
        stores = this_field_stores(p)
        if not stores:
            # a path that transfers nothing is only right when source and destination are the SAME OBJECT: it must have assumed
            # `this == &other` (identity), not equality of some field value that distinct owners can share
            conds = q.conds_before(p, len(p.events))
            ident = any(c[0] == "cmp" and c[1] == "==" and {c[2], c[3]} == {("this",), ("addr", other)} for c in conds)
            if not ident:
                why = next((fmt(c) for c in conds if c[0] == "cmp" and q.mentions(c, lambda x: x == other or x == ("addr", other))), "no identity test")
                rep.violation(rule, site(f) + " [no transfer]", "a path of the move assignment transfers nothing although source and destination are not known to be the same object "
                              "(guarded by %s): two distinct owners for which that condition holds are left as they were - the source is not inert, the destination's registration is not released" % why[:90], f["loc"], inst)
                return
            continue  # self-assignment path
        n_other += 1
        first = stores[0][0]
        regv = ("rd", ("fld", THIS_OBJ, registered_field))
        conds = q.conds_before(p, first)
        unreg = cmp_("==", regv, C(0))
        released = any(release_pred(e) for e in p.events[:first])
        if unreg in conds or released:
            continue
        rep.violation(rule, site(f) + " [overwrite]", "move assignment overwrites a live owner without releasing its registration first "
                      "(no release call and no `%s == 0` test dominates the first field store)" % registered_field, f["loc"], inst)
        return
    if n_other == 0:
        rep.violation(rule, site(f), "move assignment never transfers", f["loc"], inst)
        return
    rep.ok(rule, site(f) + " [overwrite]", "current registration released before overwrite on every transferring path (%d paths)" % n_other, inst)
    # self assignment guard
    if not any(not this_field_stores(p) for p in ps):
        rep.violation(rule, site(f) + " [self]", "self move-assignment is not a no-op", f["loc"], inst)


def check_release(rep, prop, db, f, inst, release_pred, registered_field, fields):
    """destructor / unregister: releases iff registered, then resets every field"""
    rule = "R-%s-release" % prop
    try:
        ps = q.paths(db, f)
    except Inconclusive as ex:
        rep.inconclusive(rule, site(f), str(ex), inst)
        return
    regv = ("rd", ("fld", THIS_OBJ, registered_field))
    seen_release = False
    for p in ps:
        conds = q.conds_before(p, len(p.events))
        if cmp_("==", regv, C(0)) in conds:
            if any(release_pred(e) for e in p.events):
                rep.violation(rule, site(f), "releases although not registered", f["loc"], inst)
                return
            continue
        if cmp_("!=", regv, C(0)) not in conds:
            rep.violation(rule, site(f), "a path neither tests `%s` nor is guarded by it" % registered_field, f["loc"], inst)
            return
        rel = [i for i, e in enumerate(p.events) if release_pred(e)]
        swallowed = any(e.kind == "ASSUME" and q.mentions(e.a, lambda x: isinstance(x, tuple) and x[:1] == ("ucall",) and q.short(x[2]) == "load") for e in p.events)
        if rel:
            seen_release = True
        elif not swallowed:
            rep.violation(rule, site(f), "registered owner is destroyed without reaching the release call", f["loc"], inst)
            return
        resets = {fl: v for i, fl, v in this_field_stores(p)}
        missing = [fl for fl in fields if resets.get(fl) != C(0)]
        if missing:
            rep.violation(rule, site(f), "after release the fields %s are not reset" % missing, f["loc"], inst)
            return
    if not seen_release:
        rep.violation(rule, site(f), "no path reaches the release call", f["loc"], inst)
        return
    rep.ok(rule, site(f), "releases iff registered and resets all fields", inst)


MUTATORS = {"push_back", "emplace_back", "insert", "emplace", "erase", "clear", "pop_back", "resize", "assign", "swap", "operator=", "operator[]",
            "extract", "merge", "try_emplace", "insert_or_assign", "emplace_hint", "push_front", "pop_front", "remove", "remove_if"}


def _strip(o):
    while isinstance(o, dict) and o.get("k") in ("icast", "cast", "paren"):
        o = o.get("e")
    return o


def member_mutations(db, member):
    """(function, what, loc) for every syntactic mutation of the data member `member`: a mutating container method applied to it, an
    assignment to it, or the member handed (not as the object of a method call) to another function"""
    out = []

    def is_m(o):
        o = _strip(o)
        return isinstance(o, dict) and o.get("k") in ("member", "ref") and o.get("n") == member

    def walk(x, fn):
        if isinstance(x, dict):
            if x.get("k") == "call":
                nm = (x.get("fn") or {}).get("n", "").split("::")[-1]
                if "obj" in x and is_m(x["obj"]):
                    if nm in MUTATORS and not (nm == "operator[]" and "map" not in (((_strip(x["obj"]) or {}).get("t") or {}).get("c") or "")):
                        out.append((fn, nm, x.get("loc")))
                elif x.get("opcall") in ("=", "+=") and x.get("args") and is_m(x["args"][0]):
                    out.append((fn, "operator" + x["opcall"], x.get("loc")))
                else:
                    for a in x.get("args") or []:
                        if is_m(a):
                            out.append((fn, "passed to " + (nm or "a function"), x.get("loc")))
            for v in x.values():
                if isinstance(v, (dict, list)):
                    walk(v, fn)
        elif isinstance(x, list):
            for v in x:
                walk(v, fn)

    for f in db.functions:
        if not f["dep"] and "body" in f:
            walk(f["body"], f)
            for ini in f.get("inits", []):
                walk(ini, f)
    return out


def reached_only_from(db, fname, allowed, depth=4):
    """is function `fname` (qualified, template arguments stripped) called - transitively - only from functions in `allowed`?
    (a helper extracted from an allowed function is fine; an unreferenced or publicly reachable one is not)"""
    from .c04 import scan_callers
    key = (id(db), fname, tuple(sorted(allowed)), depth)
    if key in _ROF:
        return _ROF[key]
    _ROF[key] = r = _reached_only_from(db, fname, allowed, depth, scan_callers)
    return r


_ROF = {}
_CALLERS = {}


def _reached_only_from(db, fname, allowed, depth, scan_callers0):
    def scan_callers(db_, names):
        k = (id(db_), tuple(sorted(names)))
        if k not in _CALLERS:
            _CALLERS[k] = scan_callers0(db_, names)
        return _CALLERS[k]
    seen, frontier = set(), {fname}
    for _ in range(depth):
        nxt = set()
        for fn in frontier:
            callers = {c[0]["n"] for c in scan_callers(db, {fn.split("::")[-1]}) if c[0]["n"] != fn}
            if not callers:
                return False
            for c in callers:
                if c not in allowed and c not in seen:
                    nxt.add(c)
                    seen.add(c)
        if not nxt:
            return True
        frontier = nxt
    return False
