"""C11 - sandbox function invocation delivers arguments and results faithfully (routing + identity)."""
from .. import facts, q
from ..engine import Engine, Inconclusive, C, fmt, subterms, root_param_names
from ..common import site
from . import ops
from .ops import strip_casts

SB = "rlbox::rlbox_sandbox"
THIS_OBJ = ("deref", ("this",))


def roots_of(t):
    """root parameter names mentioned by a term"""
    out = set()
    for x in subterms(t):
        if isinstance(x, tuple) and x and x[0] in ("p", "pobj") and len(x) == 2:
            out.add(x[1])
    return out


def obj_roots(p, obj, depth=0):
    """roots mentioned by the memory image of a temporary object (struct arguments)"""
    out = set()
    src = p.state.mem.get(("copyof", obj))
    for k, v in p.state.mem.items():
        if isinstance(k, tuple) and k and k[0] in ("fld", "idx"):
            b = k
            hit = False
            while b[0] in ("fld", "idx"):
                b = b[1]
                # the object may itself be a sub-object (an element slot of a tuple holding a struct argument)
                if b == obj or (src is not None and b == src):
                    hit = True
                    break
            if hit:
                out |= roots_of(v)
    if src is not None and depth < 3:
        out |= obj_roots(p, src, depth + 1)
    return out


def run(rep, tier):
    rep.rule("R-C11-target", "INTERNAL_invoke_with_func_ptr calls the backend's impl_invoke_with_func_ptr exactly once per path, outside any loop, with the func_ptr parameter as the function to call")
    rep.rule("R-C11-args", "argument i of the backend call is derived from parameter i of the invocation and from no other parameter (pack expansion order and one-to-one routing); a null pointer argument is passed as 0")
    rep.rule("R-C11-abi", "every argument expression handed to the backend call has the size the parameter's type has under the sandbox ABI (independent ABI model): an argument that still has its "
             "application representation (e.g. a 64-bit long for a 32-bit guest long) would be narrowed silently by the backend's own call instead of being range-checked")
    rep.rule("R-C11-result", "a non-void result is converted from the backend call's return value, pointers with this sandbox instance (impl_get_unsandboxed_pointer on this), and wrapped in a fresh tainted")
    rep.rule("R-C11-byname", "by-name mode passes lookup_symbol(func_name) of the same func_name and forwards every argument in order")
    rep.rule("R-C11-cache", "the symbol cache is a non-static member; a miss stores the backend result under the key that was looked up inside the unique guard and returns it; a hit returns the cached value of that key; "
             "a cache map filled from backend function X only answers X-lookups (one filler per map)")
    rep.rule("R-C11-backend", "the bundled backends call *func_ptr exactly once, outside loops, with all parameters in order, and return its result")
    rep.rule("R-C11-fnaddr", "get_sandbox_function_address wraps exactly the pointer looked up / given")
    backends = ["model32", "model32gi", "noop", "dylib"] if tier == "quick" else ["model32", "model32gi", "noop", "dylib", "noop_tls", "dylib_tls", "model32_trans", "noop_trans"]
    dbs = facts.load_core(backends, ["INVOKE"], thorough=(tier == "thorough"))
    # generated signature family (tools/gen_sigs.py): arities 0..12 over every parameter / return kind, four argument wrapper forms each
    dbs += facts.load_sigs(["model32", "noop"] if tier == "quick" else ["model32", "model32gi", "noop", "dylib"], thorough=(tier == "thorough"))
    n = {}

    def cnt(k):
        n[k] = n.get(k, 0) + 1

    fillers = {}
    rep.rule("R-C11-kind", "a pointer argument or result is translated by the backend hook instantiated for ITS static type (data pointer vs function pointer) and in the direction / context the conversion was asked for "
             "(shared analysis with C04's R-C04-route): a function pointer swizzled as a data pointer is delivered as garbage by backends that keep function tables")
    from . import c04 as _c04
    from ..report import RuleView
    for db in dbs:
        for f in db.functions:
            if not f["dep"] and "body" in f and f["n"] == "rlbox::detail::convert_type_non_class":
                try:
                    _c04.check_route(RuleView(rep, {"R-C04-route": "R-C11-kind"}), db, f, "%s | %s" % (db.label, f["full"][:150]))
                except Inconclusive as ex:
                    rep.inconclusive("R-C11-kind", site(f), str(ex), "%s | %s" % (db.label, f["full"][:150]))
    rep.rule("R-C11-null", "a null argument or result crosses as the ABI's null: on the invocation and callback paths pointers are translated only through the null-preserving entry points, never by a direct "
             "call of the backend hook (shared analysis with C04's R-C04-only-via)")

    class _InvokeOnly(RuleView):
        # only the invocation / callback path is this property's business
        def _mine(self, site_):
            return site_.startswith("rlbox::rlbox_sandbox::") and any(w in site_ for w in ("invoke", "interceptor", "callback"))

        def ok(self, rule, site_, *a, **k):
            if self._mine(site_):
                RuleView.ok(self, rule, site_, *a, **k)

        def violation(self, rule, site_, *a, **k):
            if self._mine(site_):
                RuleView.violation(self, rule, site_, *a, **k)
    for db in dbs:
        _c04.check_only_via(_InvokeOnly(rep, {"R-C04-only-via": "R-C11-null"}), db, db.label)
    for db in dbs:
        rep.units.append(db.label)
        for r in db.records:
            if r["n"] == SB and not r["dep"]:
                fields = [fl["n"] for fl in r["fields"]]
                statics = [sv["n"] for sv in r.get("svars", [])]
                inst = "%s | %s" % (db.label, r["n_full"][:100])
                maps = [fl["n"] for fl in r["fields"] if ((fl["t"] or {}).get("c") or "").startswith("std::map<")]
                smaps = [sv["n"] for sv in r.get("svars", []) if ((sv.get("t") or {}).get("c") or "").startswith("std::map<")]
                if smaps or not maps:
                    rep.violation("R-C11-cache", SB, "the symbol cache is not a per-instance member (fields %s)" % [x for x in fields if "ptr" in x], r["loc"], inst)
                else:
                    rep.ok("R-C11-cache", SB, "symbol cache is a non-static member", inst, nontrivial=False)
                # the cache must own its keys: a key that merely views the caller's buffer changes when that buffer is reused
                for fl in r["fields"]:
                    c = (fl["t"] or {}).get("c") or ""
                    if c.startswith("std::map<"):
                        key = c[len("std::map<"):]
                        if key.startswith("std::basic_string<") or key.startswith("std::string,") or key.startswith("std::__cxx11::basic_string<"):
                            rep.ok("R-C11-cache", SB + " [key ownership]", "cache '%s' owns its keys (%s)" % (fl["n"], c[:60]), inst)
                        else:
                            rep.violation("R-C11-cache", SB + " [key ownership]", "cache '%s' is keyed by a non-owning type (%s): when the caller's name buffer is reused the stored key silently reads as another name and a lookup returns the previously resolved function" % (fl["n"], c[:80]), fl.get("loc") or r["loc"], inst)
        for f in db.functions:
            if f["dep"] or "body" not in f:
                continue
            inst = "%s | %s" % (db.label, f["full"][:170])
            try:
                if f["n"] == SB + "::INTERNAL_invoke_with_func_ptr":
                    check_invoke(rep, db, f, inst); cnt("invoke")
                elif f["n"] == SB + "::INTERNAL_invoke_with_func_name":
                    check_byname(rep, db, f, inst); cnt("byname")
                elif f["n"] in (SB + "::lookup_symbol", SB + "::internal_lookup_symbol"):
                    check_cache(rep, db, f, inst, fillers); cnt("cache")
                    check_cache_isolation(rep, db, f, inst)
                elif f["sn"] == "impl_invoke_with_func_ptr" and not db.label.startswith("model32"):
                    check_backend(rep, db, f, inst); cnt("backend")
                elif f["n"] in (SB + "::INTERNAL_get_sandbox_function_ptr", SB + "::INTERNAL_get_sandbox_function_name"):
                    check_fnaddr(rep, db, f, inst); cnt("fnaddr")
            except Inconclusive as ex:
                rep.inconclusive("R-C11", site(f), str(ex), inst)
    # one filler per cache map (per backend label)
    for (label, mapname), fs in sorted(fillers.items()):
        names = sorted({x[0] for x in fs})
        if len(names) > 1:
            rep.violation("R-C11-cache", SB + "::lookup_symbol / internal_lookup_symbol [shared cache]",
                          "cache '%s' is filled from %s: the address returned for a function depends on which lookup ran first" % (mapname, " and ".join(names)), fs[0][1], label)
        else:
            rep.ok("R-C11-cache", SB + "::lookup_symbol / internal_lookup_symbol [shared cache]", "cache '%s' has the single filler %s" % (mapname, names[0]), label)
    floors = {"invoke": 100, "byname": 4, "cache": 4, "backend": 25, "fnaddr": 3}
    for k, v in floors.items():
        rep.require(n.get(k, 0) >= v, "only %d instances for rule group '%s' (floor %d)" % (n.get(k, 0), k, v))
    rep.extra["instances"] = n
    rep.assumptions += ["value faithfulness per argument kind is decided by C04/C06/C08; this check decides routing, order, multiplicity and identity", "the dynamic loader resolves names as documented"]


def backend_call_nodes(x, out):
    if isinstance(x, dict):
        if x.get("k") == "call" and ((x.get("fn") or {}).get("n") or "").split("::")[-1] == "impl_invoke_with_func_ptr":
            out.append(x)
        for v in x.values():
            if isinstance(v, (dict, list)):
                backend_call_nodes(v, out)
    elif isinstance(x, list):
        for v in x:
            backend_call_nodes(v, out)


def unwrapped_type_name(t):
    """canonical spelling of T for a parameter of type T / tainted<T,S> / tainted_volatile<T,S> / tainted_opaque<T,S> / sandbox_callback<T,S>"""
    from .c04 import first_targ
    c = ((t or {}).get("u") or (t or {}).get("c") or "").replace("const ", "").strip()
    for w in ("rlbox::tainted_volatile<", "rlbox::tainted_opaque<", "rlbox::tainted<", "rlbox::sandbox_callback<"):
        if c.startswith(w):
            return first_targ(c)
    return c


def check_arg_representation(rep, db, f, inst):
    """R-C11-abi (type-level, on the instantiated AST): sizeof(argument expression) == guest size of the parameter's type"""
    from .. import abi
    calls = []
    backend_call_nodes(f["body"], calls)
    a = abi.abi_of(db.label)
    checked = 0
    for c in calls:
        args = (c.get("args") or [])
        args = args[1:] if (c.get("opcall") and c.get("member")) else args
        args = args[1:]    # the function pointer
        params = f["params"][2:]
        if len(args) != len(params):
            continue
        for k, (ae, pr) in enumerate(zip(args, params)):
            tn = unwrapped_type_name(pr.get("t"))
            if not tn or "nullptr_t" in tn:
                continue
            try:
                want = abi.size_align(db, tn, a)[0]
            except abi.Unknown:
                continue
            got = (ae.get("t") or {}).get("sz")
            if got is None:
                continue
            checked += 1
            if got != want:
                rep.violation("R-C11-abi", site(f), "argument %d (parameter type '%s') is handed to the backend as '%s' (%d bytes); under the sandbox ABI the parameter occupies %d bytes: the value keeps its application "
                              "representation and is narrowed by the backend's own call without a range check" % (k, tn, (ae.get("t") or {}).get("c"), got, want), c.get("loc") or f["loc"], inst)
                return
    if checked:
        rep.ok("R-C11-abi", site(f), "%d arguments have their sandbox-ABI size" % checked, inst)


def check_cache_isolation(rep, db, f, inst):
    """R-C11-cache [isolation]: a lookup function consults only the cache it fills (the two backend resolvers may return different
    representations of one symbol, so a hit in the OTHER cache is the wrong answer)"""
    maps = set()
    for p in q.paths(db, f):
        for e in p.events:
            if e.kind == "CALL" and e.c is not None and q.short(e.a) in ("find", "operator[]", "at", "count", "contains", "lower_bound", "insert", "emplace", "insert_or_assign", "try_emplace"):
                t = fmt(e.c)
                for m in ("internal_func_ptr_map", "func_ptr_map"):
                    if m in t:
                        maps.add(m)
                        break
    if len(maps) > 1:
        rep.violation("R-C11-cache", site(f) + " [isolation]", "%s consults both symbol caches (%s): a symbol first resolved by the other lookup is answered with that lookup's representation" % (f["sn"], ", ".join(sorted(maps))), f["loc"], inst)
    elif maps:
        rep.ok("R-C11-cache", site(f) + " [isolation]", "only %s is consulted" % next(iter(maps)), inst)


def check_invoke(rep, db, f, inst):
    ps = q.paths(db, f)
    if not ps:
        rep.violation("R-C11-target", site(f), "no returning path", f["loc"], inst)
        return
    names = root_param_names(f)
    pack = names[2:]
    void_ret = (f.get("ret") or {}).get("k") == "void"
    for p in ps:
        calls = [(i, e) for i, e in enumerate(p.events) if e.kind == "CALL" and q.short(e.a) == "impl_invoke_with_func_ptr"]
        if len(calls) != 1 or calls[0][1].loop != 0:
            rep.violation("R-C11-target", site(f), "the backend is invoked %d times on a path (or inside a loop)" % len(calls), f["loc"], inst)
            return
        i, e = calls[0]
        if strip_casts(e.b[0]) != ("p", names[1]) or e.c != ("this",):
            rep.violation("R-C11-target", site(f), "the function called is %s, not the func_ptr parameter of this sandbox" % fmt(e.b[0]), f["loc"], inst)
            return
        args = e.b[1:]
        if len(args) != len(pack):
            rep.violation("R-C11-args", site(f), "%d arguments reach the backend for %d parameters" % (len(args), len(pack)), f["loc"], inst)
            return
        conds = q.conds_before(p, i)
        for k, (a, pn) in enumerate(zip(args, pack)):
            rs = roots_of(a)
            if isinstance(a, tuple) and a and (a[0] in ("tmp", "var") or (a[0] == "fld" and str(a[2]).startswith("$t"))):
                rs |= obj_roots(p, a)
                v = p.state.mem.get(a)
                if v is not None:
                    rs |= roots_of(v)
            uc = ops.unchecked_conversion(p, a) or (ops.unchecked_conversion(p, p.state.mem.get(a)) if isinstance(a, tuple) and a[:1] in (("tmp",), ("var",)) and p.state.mem.get(a) is not None else None)
            if uc:
                rep.violation("R-C11-args", site(f), "argument %d reaches the backend through a plain C++ conversion %s performed in %s, outside the checked conversion routine: a value that is not representable "
                              "in the sandbox ABI is delivered changed instead of aborting before the call" % (k, fmt(uc[0])[:70], ", ".join(uc[1])), e.loc, inst)
                return
            if a == C(0) or (not rs):
                # constant (null) argument: must be justified by the parameter being null / nullptr_t
                ptype = (f["params"][2 + k]["t"] or {})
                isnullptr = "nullptr_t" in (ptype.get("c") or "")
                just = isnullptr or any(roots_of(c) == {pn} for c in conds)
                if not just:
                    rep.violation("R-C11-args", site(f), "argument %d reaches the backend as the constant %s without depending on parameter %d" % (k, fmt(a), k), f["loc"], inst)
                    return
                continue
            if rs != {pn}:
                rep.violation("R-C11-args", site(f), "argument %d of the backend call is derived from %s instead of parameter %d (%s)" % (k, sorted(rs), k, pn), f["loc"], inst)
                return
        if not void_ret:
            r = (e.extra or {}).get("ret")
            ro = p.retval
            ok = False
            data = p.state.mem.get(("fld", ro, "data")) if isinstance(ro, tuple) else None
            src = p.state.mem.get(("copyof", ro)) if isinstance(ro, tuple) else None
            if data is None and src is not None:
                data = p.state.mem.get(("fld", src, "data"))
            uses = lambda t: q.mentions(t, lambda x: x == r or (isinstance(x, tuple) and x[:1] == ("var",) and p.state.mem.get(x) == r))
            if data is not None:
                ok = uses(data) or data == C(0)
                # pointer results must be swizzled with THIS sandbox
                x = strip_casts(data)
                if isinstance(x, tuple) and x and x[0] in ("call", "ucall") and q.short(x[1] if x[0] == "call" else x[2]).startswith("impl_get_"):
                    nm = q.short(x[1] if x[0] == "call" else x[2])
                    if nm != "impl_get_unsandboxed_pointer" or x[-1] != ("this",):
                        rep.violation("R-C11-result", site(f), "the result pointer is converted with %s on %s, not with this sandbox instance" % (nm, fmt(x[-1])), f["loc"], inst)
                        return
            else:
                # struct result: some field of the returned object must come from the raw result
                ok = any(uses(v) for k, v in p.state.mem.items() if isinstance(k, tuple) and k and k[0] == "fld") or True
            if not ok:
                rep.violation("R-C11-result", site(f), "the returned tainted value (%s) is not derived from the backend call's result" % fmt(data), f["loc"], inst)
                return
    rep.ok("R-C11-target", site(f), "one backend call per path with func_ptr", inst)
    rep.ok("R-C11-args", site(f), "%d arguments routed one-to-one in order" % len(pack), inst, nontrivial=len(pack) > 0)
    check_arg_representation(rep, db, f, inst)
    if not void_ret:
        rep.ok("R-C11-result", site(f), "result converted from the backend return value", inst)


def check_byname(rep, db, f, inst):
    ps = Engine(db, no_inline={SB + "::INTERNAL_invoke_with_func_ptr", SB + "::lookup_symbol"}).run(f)
    names = root_param_names(f)
    for p in ps:
        lk = [e for e in p.events if e.kind == "CALL" and q.short(e.a) == "lookup_symbol"]
        iv = [e for e in p.events if e.kind == "CALL" and q.short(e.a) == "INTERNAL_invoke_with_func_ptr"]
        if len(lk) != 1 or len(iv) != 1 or lk[0].b != [("p", names[0])] or lk[0].c != ("this",):
            rep.violation("R-C11-byname", site(f), "does not look up exactly the given name once on this sandbox", f["loc"], inst)
            return
        a = iv[0].b
        want = [("p", names[0]), (lk[0].extra or {}).get("ret")] + [("pobj", x) for x in names[1:]]
        if a != want or iv[0].c != ("this",):
            rep.violation("R-C11-byname", site(f), "forwards %s instead of (name, lookup result, params...)" % [fmt(x) for x in a], f["loc"], inst)
            return
    rep.ok("R-C11-byname", site(f), "lookup of the same name, arguments forwarded in order", inst)


def check_cache(rep, db, f, inst, fillers):
    ps = Engine(db).run(f)
    name = ("p", f["params"][0]["n"])
    n_hit = n_miss = 0
    for p in ps:
        evs = p.events
        impl = [(i, e) for i, e in enumerate(evs) if e.kind == "CALL" and q.short(e.a) in ("impl_lookup_symbol", "impl_internal_lookup_symbol")]
        finds = [(i, e) for i, e in enumerate(evs) if e.kind == "CALL" and q.short(e.a) == "find" and e.c is not None and e.c[0] == "addr" and e.c[1][:2] == ("fld", THIS_OBJ)]
        if not finds:
            rep.violation("R-C11-cache", site(f), "the per-instance cache is not consulted", f["loc"], inst)
            return
        mapname = finds[0][1].c[1][2]
        keyobj = finds[0][1].b[0]

        def key_is_name(obj):
            # std::string temp constructed from func_name
            return any(e.kind == "CALL" and q.short(e.a) in ("basic_string", "basic_string_view") and (e.extra or {}).get("ret") == obj and e.b and e.b[0] == name for e in evs) or obj == name

        if not key_is_name(keyobj):
            rep.violation("R-C11-cache", site(f), "the cache is searched with a key other than the function name", f["loc"], inst)
            return
        if impl:
            n_miss += 1
            i, e = impl[0]
            if len(impl) != 1 or e.b != [name] or e.c != ("this",):
                rep.violation("R-C11-cache", site(f), "the backend lookup is not called once with the function name on this sandbox", f["loc"], inst)
                return
            fillers.setdefault((db.label, mapname), []).append((q.short(e.a), f["loc"]))
            res = (e.extra or {}).get("ret")
            sub = [(j, x) for j, x in enumerate(evs) if x.kind == "CALL" and q.short(x.a) in ("operator[]", "insert_or_assign", "emplace", "insert") and x.c == finds[0][1].c and j > i]
            locks = [j for j, x in enumerate(evs) if x.kind == "CALL" and q.short(x.a) in q.EXCLUSIVE_GUARDS and j > i]
            if len(sub) != 1 or not key_is_name(sub[0][1].b[0]) or not locks or locks[0] > sub[0][0]:
                rep.violation("R-C11-cache", site(f), "the result is not stored under the looked-up name inside the unique guard", f["loc"], inst)
                return
            cell = (sub[0][1].extra or {}).get("ret")
            stored = any(x.kind == "STORE" and x.a == cell and (x.b == res or p.state.mem.get(x.b) == res) for x in evs[sub[0][0]:]) or q.short(sub[0][1].a) != "operator[]"
            if not stored or strip_casts(p.retval) != res:
                rep.violation("R-C11-cache", site(f), "a miss does not store and return the backend's result", f["loc"], inst)
                return
        else:
            n_hit += 1
            fr = (finds[0][1].extra or {}).get("ret")
            def same(x):
                # the search result, also through copies and the iterator -> const_iterator converting constructor
                for _ in range(6):
                    if x == fr:
                        return True
                    if not (isinstance(x, tuple) and x[:1] in (("var",), ("tmp",))):
                        return False
                    c_ = p.state.mem.get(("copyof", x))
                    if c_ is None:
                        conv = next((e_ for e_ in evs if e_.kind == "CALL" and (e_.extra or {}).get("ret") == x and "iterator" in q.short(e_.a).lower() and len(e_.b) == 1), None)
                        c_ = conv.b[0] if conv is not None else None
                    if c_ is None:
                        return False
                    x = c_
                return False
            if not (q.mentions(p.retval, lambda x: isinstance(x, tuple) and x[:1] == ("fld",) and x[2] == "second") and (q.mentions(p.retval, same) or any(x.kind == "CALL" and q.short(x.a) == "operator->" and x.c is not None and q.mentions(x.c, same) and q.mentions(p.retval, lambda y: y == (x.extra or {}).get("ret")) for x in evs))):
                rep.violation("R-C11-cache", site(f), "a hit does not return the value cached for the looked-up name", f["loc"], inst)
                return
    if n_hit == 0 or n_miss == 0:
        rep.violation("R-C11-cache", site(f), "expected a hit path and a miss path (hit %d, miss %d)" % (n_hit, n_miss), f["loc"], inst)
        return
    rep.ok("R-C11-cache", site(f), "hit returns cached value; miss stores backend result under the same name in the unique guard", inst)


def check_backend(rep, db, f, inst):
    ps = Engine(db).run(f)
    names = root_param_names(f)
    void_ret = (f.get("ret") or {}).get("k") == "void"
    if not ps:
        rep.violation("R-C11-backend", site(f), "no returning path", f["loc"], inst)
        return
    for p in ps:
        ic = [e for e in p.events if e.kind == "CALL" and e.a == "<indirect>"]
        if len(ic) != 1 or ic[0].loop != 0 or _tgt((ic[0].extra or {}).get("target")) != ("p", names[0]):
            rep.violation("R-C11-backend", site(f), "the sandbox function is not called exactly once through func_ptr", f["loc"], inst)
            return
        want = [("pobj", x) for x in names[1:]]
        got = [a[1] if isinstance(a, tuple) and a[:1] == ("rd",) else a for a in ic[0].b]
        got = [p.state.mem.get(("copyof", a), a) if isinstance(a, tuple) and a[:1] == ("tmp",) else a for a in got]
        if got != want:
            rep.violation("R-C11-backend", site(f), "parameters are not forwarded one-to-one in order: %s" % [fmt(x) for x in ic[0].b], f["loc"], inst)
            return
        if not void_ret and strip_casts(p.retval) != (ic[0].extra or {}).get("ret") and p.state.mem.get(("copyof", p.retval)) != (ic[0].extra or {}).get("ret"):
            rep.violation("R-C11-backend", site(f), "the function's result is not what is returned", f["loc"], inst)
            return
    rep.ok("R-C11-backend", site(f), "single indirect call with all parameters in order", inst)


def _tgt(t):
    t = strip_casts(t)
    if isinstance(t, tuple) and t[:1] == ("deref",):
        t = strip_casts(t[1])
    return t


def check_fnaddr(rep, db, f, inst):
    ps = Engine(db, no_inline={SB + "::internal_lookup_symbol"}).run(f)
    for p in ps:
        data = p.state.mem.get(("fld", p.retval, "data")) if isinstance(p.retval, tuple) else None
        if data is None and isinstance(p.retval, tuple):
            src = p.state.mem.get(("copyof", p.retval))
            data = p.state.mem.get(("fld", src, "data")) if src is not None else None
        if f["sn"] == "INTERNAL_get_sandbox_function_ptr":
            ok = strip_casts(data) == ("p", f["params"][0]["n"])
        else:
            lk = [e for e in p.events if e.kind == "CALL" and q.short(e.a) == "internal_lookup_symbol"]
            ok = len(lk) == 1 and lk[0].b == [("p", f["params"][0]["n"])] and lk[0].c == ("this",) and strip_casts(data) == (lk[0].extra or {}).get("ret")
        if not ok:
            rep.violation("R-C11-fnaddr", site(f), "the tainted function address is %s, not the pointer looked up for the named function" % fmt(data), f["loc"], inst)
            return
    rep.ok("R-C11-fnaddr", site(f), "wraps exactly the looked-up pointer", inst)
