"""C08 - struct marshalling follows the sandbox ABI layout and round-trips every field (layout + field routing)."""
from .. import facts, q, abi
from ..engine import Engine, Inconclusive, C, fmt, subterms
from ..common import site
from .ops import strip_casts
from .c09 import root_of
from . import c04, c06
from ..report import RuleView

THIS_OBJ = ("deref", ("this",))


def path_of(lv):
    """field path of an lvalue below its root: tuple of ('f', name) / ('i', index term)"""
    out = []
    while isinstance(lv, tuple) and lv and lv[0] in ("fld", "idx"):
        out.append(("f", lv[2]) if lv[0] == "fld" else ("i", lv[2]))
        lv = lv[1]
    return lv, tuple(reversed(out))


def reads_in(t):
    """(root, path) of every rd/vrd leaf in a value term"""
    out = []
    for x in subterms(t):
        if isinstance(x, tuple) and x:
            lv = None
            if x[0] == "rd":
                lv = x[1]
            elif x[0] == "vrd":
                lv = x[2]
            if lv is not None and isinstance(lv, tuple) and lv[:1] in (("fld",), ("idx",)):
                out.append(path_of(lv))
    return out


def run(rep, tier):
    rep.rule("R-C08-layout", "for every registered struct S and backend: tainted_volatile<S> and the generated guest struct Sbx_S have exactly the size, alignment and field offsets the checker's independent ABI "
             "calculator derives from S's field list under the sandbox ABI (natural alignment), field names/order equal S's; tainted<S> has the application layout of S")
    rep.rule("R-C08-fields", "in each generated converter (tainted_volatile::get_raw_value, tainted::get_raw_sandbox_value, tainted(const tainted_volatile&), tainted_volatile::operator=, both convert_type_class::run) "
             "on every path every field of S is written exactly from the field of the same name (same element index for arrays) of the source object; no field is skipped, duplicated or fed from a neighbour")
    rep.rule("R-C08-pointers", "pointer fields are translated relative to the sandbox the struct image lives in: every context-free translation in a generated converter receives the address of the "
             "sandbox-memory object (the tainted_volatile struct or one of its fields) as its example, every context translation uses the caller's sandbox")
    rep.rule("R-C08-arrays", "array fields are converted element-wise over every index of every dimension, or by one byte copy of the whole array between identical element representations "
             "(shared analysis with C06's R-C06-array, applied to the array conversions the struct family instantiates)")
    rep.rule("R-C08-values", "every integer field conversion the struct family instantiates accepts exactly the values representable in the destination field and stores them unchanged "
             "(a field that is not representable aborts; shared analysis with C06's R-C06-guard, applied to the conversions instantiated for struct fields)")
    rep.rule("R-C08-nested", "nested registered structs are converted recursively (their leaf fields appear in the mapping)")
    backends = ["model32", "noop"] if tier == "quick" else ["model32", "model32gi", "noop", "dylib"]
    dbs = facts.load_core(backends, ["INVOKE"], thorough=(tier == "thorough"))
    # generated family (tools/gen_structs.py): every field kind of the quantifier in varying orders; 10 structs quick, 48 thorough
    gen = facts.load_structs(["model32", "noop"] if tier == "quick" else ["model32", "model32gi", "noop", "dylib"], thorough=(tier == "thorough"))
    n = {"layout": 0, "conv": 0}
    kinds_seen = set()
    for db in dbs + gen:
        rep.units.append(db.label)
        a = abi.abi_of(db.label)
        structs = registered_structs(db)
        floor = 3 if db not in gen else (10 if tier == "quick" else 48)
        rep.require(len(structs) >= floor, "%s: only %d registered structs found (floor %d)" % (db.label, len(structs), floor))
        for S in structs:
            host = next(x for x in db.records if x["n"] == S and not x["dep"])
            for fl in host["fields"]:
                kinds_seen.add(field_kind(fl["t"] or {}))
        if db in gen:
            c06.check_arrays(RuleView(rep, {"R-C06-array": "R-C08-arrays"}), db, floor=6)
            c06.check_guards(RuleView(rep, {"R-C06-guard": "R-C08-values"}), db, 10 if db.label.startswith("model32") else 4, set())
        for S in structs:
            check_layout(rep, db, S, a, n)
        # pointer fields (and elements of pointer-array fields) go through the backend hook instantiated for their own static type
        for f_ in db.functions:
            if not f_["dep"] and "body" in f_ and f_["n"] == "rlbox::detail::convert_type_non_class":
                try:
                    c04.check_route(RuleView(rep, {"R-C04-route": "R-C08-pointers"}), db, f_, "%s | %s" % (db.label, f_["full"][:150]))
                except Inconclusive as ex:
                    rep.inconclusive("R-C08-pointers", site(f_), str(ex), "%s | %s" % (db.label, f_["full"][:150]))
        for f in db.functions:
            if f["dep"] or "body" not in f:
                continue
            role = converter_role(db, f, structs)
            if role is None:
                continue
            inst = "%s | %s" % (db.label, f["full"][:170])
            try:
                check_fields(rep, db, f, inst, role)
                n["conv"] += 1
                if c04.is_example_user(f):
                    if c04.check_example(rep, db, f, inst, rule="R-C08-pointers"):
                        n["ptr"] = n.get("ptr", 0) + 1
            except Inconclusive as ex:
                rep.inconclusive("R-C08-fields", site(f), str(ex), inst)
    want_kinds = {"int8", "uint8", "int16", "uint16", "int32", "uint32", "int64", "uint64", "bool", "enum", "float", "ptr", "fnptr", "arr:int", "arr:ptr", "arr:fnptr", "arr:arr", "struct"}
    rep.require(want_kinds <= kinds_seen, "field kinds missing from the analysed struct family: %s" % sorted(want_kinds - kinds_seen))
    rep.extra["field_kinds"] = sorted(kinds_seen)
    rep.require(n["layout"] >= 12, "only %d layouts compared (floor 12)" % n["layout"])
    rep.require(n.get("ptr", 0) >= 8, "only %d converters with pointer-field translations analysed (floor 8)" % n.get("ptr", 0))
    rep.require(n["conv"] >= 20, "only %d converter instantiations analysed (floor 20)" % n["conv"])
    rep.extra["instances"] = n
    rep.assumptions += ["field values are decided per kind by C04 (pointers) and C06 (integers); this check decides layout and field routing",
                        "natural alignment; ILP32-like guest for the model32 backend, host ABI for the bundled backends"]


def registered_structs(db):
    out = []
    for r in db.records:
        if r["n"].startswith("rlbox::Sbx_") and not r["dep"]:
            base = r["n"].split("_", 2)[2] if r["n"].count("_") >= 2 else None
            if base and base not in out and any(x["n"] == base and not x["dep"] for x in db.records):
                out.append(base)
    return out


def find_wrapper(db, cls, S):
    for r in db.records:
        if r["n"] == cls and not r["dep"] and (r.get("targs") or [""])[0] == S:
            return r
    return None


def check_layout(rep, db, S, a, n):
    host = next(x for x in db.records if x["n"] == S and not x["dep"])
    host_fields = [(fl["n"], fl.get("off"), (fl["t"] or {}).get("sz")) for fl in host["fields"]]
    try:
        gsize, galign, glay = abi.struct_layout(db, S, a)
    except abi.Unknown as ex:
        rep.inconclusive("R-C08-layout", S, "ABI model: %s" % ex)
        return
    sbx = next((x for x in db.records if x["n"].startswith("rlbox::Sbx_") and x["n"].endswith("_" + S) and not x["dep"]), None)
    vol = find_wrapper(db, "rlbox::tainted_volatile", S)
    tnt = find_wrapper(db, "rlbox::tainted", S)
    for label, rec, want_size, want_align, want_fields in (
            ("guest struct " + (sbx or {}).get("n", "?"), sbx, gsize, galign, [(nm, off) for nm, off, _s in glay]),
            ("tainted_volatile<%s>" % S, vol, gsize, galign, [(nm, off) for nm, off, _s in glay]),
            ("tainted<%s>" % S, tnt, host.get("size"), host.get("align"), [(nm, off) for nm, off, _s in host_fields])):
        inst = "%s | %s" % (db.label, label)
        if rec is None or "size" not in rec:
            rep.inconclusive("R-C08-layout", "struct " + S, "%s not found / no layout" % label, inst)
            continue
        n["layout"] += 1
        got_fields = [(fl["n"], fl.get("off")) for fl in rec["fields"]]
        if (rec["size"], rec["align"]) != (want_size, want_align):
            rep.violation("R-C08-layout", "struct %s [%s]" % (S, label.split("<")[0].split(" ")[0]), "%s has size/align %s, expected %s" % (label, (rec["size"], rec["align"]), (want_size, want_align)), rec["loc"], inst)
        elif got_fields != want_fields:
            diff = next(((g, w) for g, w in zip(got_fields, want_fields) if g != w), (got_fields[len(want_fields):], want_fields[len(got_fields):]))
            rep.violation("R-C08-layout", "struct %s [%s]" % (S, label.split("<")[0].split(" ")[0]), "%s: field %s is laid out as %s, expected %s" % (label, diff[1][0] if diff[1] else "?", diff[0], diff[1]), rec["loc"], inst)
        else:
            rep.ok("R-C08-layout", "struct %s [%s]" % (S, label.split("<")[0].split(" ")[0]), "size %d align %d, %d fields at the prescribed offsets" % (want_size, want_align, len(want_fields)), inst)


def converter_role(db, f, structs):
    """which struct does this generated converter handle"""
    nm = f["n"]
    cta = f.get("ctargs") or []
    if nm in ("rlbox::tainted_volatile::get_raw_value", "rlbox::tainted::get_raw_sandbox_value", "rlbox::tainted_volatile::operator=") and cta and cta[0] in structs:
        return cta[0]
    if nm == "rlbox::tainted::tainted" and cta and cta[0] in structs and len(f["params"]) == 1 and "tainted_volatile" in ((f["params"][0]["t"] or {}).get("c") or ""):
        return cta[0]
    if nm == "rlbox::detail::convert_type_class::run" and len(cta) >= 4:
        t = cta[3]
        for S in structs:
            if t == S or t.startswith("rlbox::Sbx_") and t.split("<")[0].endswith("_" + S):
                return S
    return None


def leaf_paths(db, S, a_prefix=()):
    """all leaf field paths of struct S (nested structs expanded; arrays as one node)"""
    out = []
    host = next(x for x in db.records if x["n"] == S and not x["dep"])
    for fl in host["fields"]:
        t = fl["t"] or {}
        if t.get("k") == "rec" and any(x["n"] == t.get("rn") and not x["dep"] for x in db.records) and not (t.get("rn") or "").startswith("std::"):
            out += leaf_paths(db, t["rn"], a_prefix + (("f", fl["n"]),))
        else:
            out.append(a_prefix + (("f", fl["n"]),))
    return out


def check_fields(rep, db, f, inst, S):
    rule = "R-C08-fields"
    ps = Engine(db).run(f)
    if not ps:
        rep.violation(rule, site(f), "no returning path", f["loc"], inst)
        return
    leaves = leaf_paths(db, S)
    for p in ps:
        writes = {}  # dest path (fields only) -> list of (full dest path, sources)
        dest_roots, src_roots = {}, {}
        for i, e in enumerate(p.events):
            if e.kind == "STORE" and not (e.extra or {}).get("rec"):
                root, path = path_of(e.a)
                if not path or path[0][0] != "f":
                    continue
                srcs = reads_in(e.b)
                if e.b == C(0) or not srcs:
                    # null pointer field: justified by a test of the same source field
                    conds = q.conds_before(p, i)
                    for c in reversed(conds):
                        rs = reads_in(c)
                        if rs and c[0] == "cmp" and c[3] == C(0):
                            srcs = rs[:1]
                            break
                writes.setdefault(fields_only(path), []).append((root, path, srcs))
            elif e.kind == "CALL" and q.short(e.a) in ("memcpy", "memmove") and len(e.b) >= 2:
                d, s_ = strip_casts(e.b[0]), strip_casts(e.b[1])
                if d[:1] == ("addr",) and s_[:1] == ("addr",):
                    root, path = path_of(d[1])
                    sroot, spath = path_of(s_[1])
                    if path and path[0][0] == "f":
                        writes.setdefault(fields_only(path), []).append((root, path, [(sroot, spath)]))
        if not writes:
            rep.violation(rule, site(f), "the converter writes no field", f["loc"], inst)
            return
        for lf in leaves:
            w = writes.get(lf)
            if not w:
                rep.violation(rule, site(f), "field '%s' of %s is never written (skipped) on a path" % (".".join(x[1] for x in lf), S), f["loc"], inst)
                return
            for root, path, srcs in w:
                dest_roots[root] = dest_roots.get(root, 0) + 1
                if not srcs:
                    rep.violation(rule, site(f), "field '%s' is written with a value that does not come from the source struct" % ".".join(x[1] for x in lf), f["loc"], inst)
                    return
                for sroot, spath in srcs:
                    src_roots[sroot] = src_roots.get(sroot, 0) + 1
                    if fields_only(spath) != lf or not same_indices(path, spath):
                        rep.violation(rule, site(f), "field '%s' of the destination is fed from '%s' of the source" % (show(path), show(spath)), f["loc"], inst)
                        return
            # duplicates: a scalar leaf must be written once (loops write per element)
            scal = [x for x in w if all(k == "f" for k, _v in x[1])]
            if len(scal) > 1:
                rep.violation(rule, site(f), "field '%s' is written %d times" % (show(scal[0][1]), len(scal)), f["loc"], inst)
                return
        extra = [k for k in writes if k not in leaves]
        if extra:
            rep.violation(rule, site(f), "writes to %s which is not a field of %s" % ([show(k) for k in extra], S), f["loc"], inst)
            return
        if len(dest_roots) != 1 or len(src_roots) != 1 or list(dest_roots)[0] == list(src_roots)[0]:
            rep.violation(rule, site(f), "fields are not copied from one source object into one destination object (dest %s, src %s)" % ([fmt(x) for x in dest_roots], [fmt(x) for x in src_roots]), f["loc"], inst)
            return
    nested = [lf for lf in leaves if len(lf) > 1]
    rep.ok(rule, site(f), "%d leaf fields of %s mapped name-to-name on %d paths" % (len(leaves), S, len(ps)), inst)
    if nested:
        rep.ok("R-C08-nested", site(f), "%d nested leaf fields converted recursively" % len(nested), inst)


def fields_only(path):
    return tuple(x for x in path if x[0] == "f")


def same_indices(p1, p2):
    i1 = [x[1] for x in p1 if x[0] == "i"]
    i2 = [x[1] for x in p2 if x[0] == "i"]
    return i1 == i2


def show(path):
    return "".join(("." + x[1]) if x[0] == "f" else "[%s]" % fmt(x[1]) for x in path).lstrip(".")


def field_kind(t):
    k = t.get("k")
    if k == "array":
        el = t.get("el") or ""
        if el.endswith("]"):
            return "arr:arr"
        if "(*" in el:
            return "arr:fnptr"
        if el.endswith("*"):
            return "arr:ptr"
        return "arr:int"
    if k == "int":
        return ("int" if t.get("sg") else "uint") + str(t.get("w"))
    if k == "ptr":
        return "fnptr" if "(" in (t.get("c") or "") else "ptr"
    if k == "rec":
        return "struct"
    return k or "?"
