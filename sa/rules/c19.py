"""C19 - transition notifications bracket every boundary crossing and stay balanced."""
from .. import facts, q
from ..engine import Engine, Inconclusive, C, fmt, subterms, root_param_names
from ..common import site
from .ops import strip_casts

SB = "rlbox::rlbox_sandbox"
THIS_OBJ = ("deref", ("this",))
INVOKE, CALLBACK = 0, 1


def argvals(e):
    return (e.extra or {}).get("argvals", e.b)


def run(rep, tier):
    rep.rule("R-C19-invoke", "in INTERNAL_invoke_with_func_ptr (hooks+timing configuration) every path has exactly one IN notification, issued before any abort check, conversion or the backend call, "
             "and exactly one OUT notification issued by a scope guard that is constructed before the first statement that can abort and runs after the backend call; both carry "
             "(INVOKE, func_name, func_ptr, this->transition_state); exactly one timing record with the same identity is pushed by a scope guard")
    rep.rule("R-C19-callback", "mirror image in the callback interceptor: OUT at entry, IN from a scope guard after the callee, both with (CALLBACK, nullptr, key, sandbox.transition_state); one timing record")
    rep.rule("R-C19-scope-exit", "scope_exit runs its function in the destructor iff armed; the move constructor arms the destination iff the source was armed and disarms the source; copying is deleted")
    backends = ["model32_trans", "noop_trans"]
    dbs = facts.load_core(backends, ["INVOKE", "SCOPE"], thorough=(tier == "thorough"))
    n = {"invoke": 0, "callback": 0, "scope": 0}
    for db in dbs:
        rep.units.append(db.label)
        for f in db.functions:
            if f["dep"] or "body" not in f:
                continue
            inst = "%s | %s" % (db.label, f["full"][:150])
            try:
                if f["n"] == SB + "::INTERNAL_invoke_with_func_ptr":
                    check_bracket(rep, db, f, inst, "invoke"); n["invoke"] += 1
                elif f["n"] == SB + "::sandbox_callback_interceptor":
                    check_bracket(rep, db, f, inst, "callback"); n["callback"] += 1
                elif f["n"].startswith("rlbox::detail::scope_exit::"):
                    if check_scope_exit(rep, db, f, inst):
                        n["scope"] += 1
            except Inconclusive as ex:
                rep.inconclusive("R-C19", site(f), str(ex), inst)
        for r in db.records:
            if r["n"] == "rlbox::detail::scope_exit" and not r["dep"]:
                ms = r["methods"]
                cp = [m for m in ms if m.get("copy")]
                ca = [m for m in ms if m.get("copyassign") or m.get("moveassign")]
                inst = "%s | %s" % (db.label, r["n_full"][:80])
                if all(m.get("deleted") for m in cp + ca) and cp:
                    rep.ok("R-C19-scope-exit", "rlbox::detail::scope_exit", "copy and assignments deleted", inst, nontrivial=False)
                else:
                    rep.violation("R-C19-scope-exit", "rlbox::detail::scope_exit [copy]", "scope_exit can be copied/assigned: its function could run twice", r["loc"], inst)
    rep.require(n["invoke"] >= 20, "only %d invoke instantiations in the hooks configuration" % n["invoke"])
    rep.require(n["callback"] >= 8, "only %d interceptor instantiations in the hooks configuration" % n["callback"])
    rep.require(n["scope"] >= 4, "only %d scope_exit members analysed" % n["scope"])
    rep.extra["instances"] = n
    rep.assumptions += ["the dynamic nesting tree is balanced because every crossing function brackets itself (not enumerated)",
                        "an abort surfaced as an exception unwinds through the scope guards (C++ semantics)"]


def check_bracket(rep, db, f, inst, kind):
    rule = "R-C19-" + kind
    ps = q.paths(db, f)
    if not ps:
        rep.violation(rule, site(f), "no returning path", f["loc"], inst)
        return
    first_name, second_name = ("vb_hook_in", "vb_hook_out") if kind == "invoke" else ("vb_hook_out", "vb_hook_in")
    for p in ps:
        evs = p.events
        firsts = [i for i, e in enumerate(evs) if e.kind == "CALL" and q.short(e.a) == first_name]
        seconds = [i for i, e in enumerate(evs) if e.kind == "CALL" and q.short(e.a) == second_name]
        if kind == "invoke":
            cross = [i for i, e in enumerate(evs) if e.kind == "CALL" and q.short(e.a) == "impl_invoke_with_func_ptr"]
        else:
            cross = [i for i, e in enumerate(evs) if e.kind == "CALL" and e.a == "<indirect>"]
        if len(firsts) != 1 or len(seconds) != 1 or len(cross) != 1:
            rep.violation(rule, site(f), "expected exactly one %s, one crossing and one %s per path; found %d/%d/%d" % (first_name, second_name, len(firsts), len(cross), len(seconds)), f["loc"], inst)
            return
        a, c, b = firsts[0], cross[0], seconds[0]
        if not (a < c < b):
            rep.violation(rule, site(f) + " [order]", "notifications do not bracket the crossing: %s at %d, crossing at %d, %s at %d" % (first_name, a, c, second_name, b), f["loc"], inst)
            return
        # identity
        if kind == "invoke":
            names = root_param_names(f)
            want = [C(INVOKE), ("p", names[0]), ("p", names[1]), ("rd", ("fld", THIS_OBJ, "transition_state"))]
        else:
            ctx = [e for e in evs if e.kind == "CALL" and q.short(e.a) == "impl_get_executed_callback_sandbox_and_key"]
            pair = (ctx[0].extra or {}).get("ret") if ctx else None
            want = [C(CALLBACK), C(0), ("rd", ("fld", pair, "second")), ("rd", ("fld", ("deref", ("rd", ("fld", pair, "first"))), "transition_state"))]
        for idx in (a, b):
            got = [strip_casts(x) for x in argvals(evs[idx])]
            if got != want:
                rep.violation(rule, site(f) + " [identity]", "%s carries %s, expected %s" % (q.short(evs[idx].a), [fmt(x) for x in got], [fmt(x) for x in want]), evs[idx].loc, inst)
                return
        # the closing notification must come from a scope guard constructed before anything that can abort
        if not any("::~" in nm for nm, _l in evs[b].stack):  # inside the destructor of an automatic object (any RAII guard)
            rep.violation(rule, site(f) + " [guard]", "the closing notification is not issued by a scope guard: it is skipped when the crossing ends by an exception", evs[b].loc, inst)
            return
        dtor_types = {e.b for e in evs if e.kind == "DTOR" and isinstance(e.b, str)}
        ctors = [i for i, e in enumerate(evs) if e.kind == "CTOR" and ("scope_exit" in (e.b or "") or any((e.b or "").startswith(t) for t in dtor_types))]
        # which guard object runs the closing hook: DTOR event preceding b at lower depth
        dt = [i for i, e in enumerate(evs[:b]) if e.kind == "DTOR"]
        gobj = evs[dt[-1]].a if dt else None
        gctor = [i for i in ctors if evs[i].a == gobj or p.state.mem.get(("copyof", gobj)) == evs[i].a]
        gpos = min(gctor) if gctor else None
        if gpos is None:
            # the guard variable is the (elided) temporary: find the CTOR whose object was later destroyed running the hook
            gpos = next((i for i in ctors if i < c), None)
        first_abortable = next((i for i, e in enumerate(evs) if (e.kind == "ASSUME" and e.extra.get("abort_check")) or i == c), c)
        if gpos is None or gpos > first_abortable:
            rep.violation(rule, site(f) + " [guard]", "the scope guard issuing the closing notification is constructed after a statement that can abort (event %s vs first abortable %s)" % (gpos, first_abortable), f["loc"], inst)
            return
        if a > first_abortable:
            rep.violation(rule, site(f) + " [order]", "the opening notification is issued after a statement that can abort", f["loc"], inst)
            return
        # timing record
        pb = [i for i, e in enumerate(evs) if e.kind == "CALL" and q.short(e.a) in ("push_back", "emplace_back") and e.c is not None and "transition_times" in fmt(e.c)]
        if len(pb) != 1 or pb[0] < c:
            rep.violation(rule, site(f) + " [timing]", "expected exactly one timing record pushed after the crossing (found %d)" % len(pb), f["loc"], inst)
            return
        if not any("::~" in nm for nm, _l in evs[pb[0]].stack):
            rep.violation(rule, site(f) + " [timing]", "the timing record is not pushed by a scope guard", evs[pb[0]].loc, inst)
            return
        recobj = evs[pb[0]].b[0]
        fields = [p.state.mem.get(("idx", recobj, C(k))) for k in range(3)]
        src = p.state.mem.get(("copyof", recobj))
        if src is not None and fields[0] is None:
            fields = [p.state.mem.get(("idx", src, C(k))) for k in range(3)]
        if [strip_casts(x) if x is not None else None for x in fields] != want[:3]:
            rep.violation(rule, site(f) + " [timing]", "the timing record carries %s, expected %s" % ([fmt(x) if x else None for x in fields], [fmt(x) for x in want[:3]]), evs[pb[0]].loc, inst)
            return
    rep.ok(rule, site(f), "one opening and one closing notification bracket the crossing with the same identity; closing + timing record issued by scope guards built before the first abortable statement (%d paths)" % len(ps), inst)


def scope_exit_shape(db, f):
    """(flag field, function field, armed) of the scope guard class f belongs to - from the record (the bool / enum / integer member
    is the flag, the other member the function) and from the destructor (the flag test under which the function runs: armed is
    ("==", k) or ("!=", k)); no member name, flag type or polarity is assumed."""
    rec = db.rec_by_id.get(f.get("rid")) or {}
    flags = [fl["n"] for fl in rec.get("fields", []) if (fl["t"] or {}).get("k") in ("bool", "enum", "int")]
    funcs = [fl["n"] for fl in rec.get("fields", []) if (fl["t"] or {}).get("k") not in ("bool", "enum", "int")]
    if len(flags) != 1 or len(funcs) != 1:
        return None
    F, G = flags[0], funcs[0]
    _NOINL[(id(db), rec.get("id"))] = {((fl["t"] or {}).get("rn") or "?") + "::operator()" for fl in rec.get("fields", []) if fl["n"] == G}
    key = (id(db), rec.get("id"))
    if key not in _ARMED:
        armed = None
        dt = next((g for g in db.functions if g.get("rid") == rec.get("id") and g.get("kind") == "dtor" and "body" in g and not g["dep"]), None)
        if dt is not None:
            flag = ("rd", ("fld", THIS_OBJ, F))
            for p in Engine(db, no_inline=_NOINL[key]).run(dt):
                runs = [e for e in p.events if e.kind == "CALL" and e.c is not None and q.mentions(e.c, lambda x: x == ("fld", THIS_OBJ, G))]
                if runs:
                    conds = q.resolve(q.conds_before(p, p.events.index(runs[0])))
                    for c in conds:
                        if c[0] == "cmp" and c[1] in ("==", "!=") and c[2] == flag and c[3][0] == "c":
                            armed = (c[1], c[3][1])
                            if c[1] == "==":
                                break
        _ARMED[key] = armed
    return F, G, _ARMED[key]


_ARMED = {}
_NOINL = {}     # the exit function's call operator is kept as a call (a named functor would otherwise be inlined and leave no call event)


def _is_armed(A, v):
    """does the constant flag value v arm the guard?  None when v is not a constant"""
    if not (isinstance(v, tuple) and v[:1] == ("c",)):
        return None
    return (v[1] == A[1]) if A[0] == "==" else (v[1] != A[1])


def check_scope_exit(rep, db, f, inst):
    rule = "R-C19-scope-exit"
    shape = scope_exit_shape(db, f)
    if shape is None or shape[2] is None:
        if f.get("kind") in ("dtor", "ctor"):
            rep.violation(rule, site(f), "the scope guard is not a (flag, function) pair whose destructor runs the function under one value of the flag", f["loc"], inst)
            return True
        return False
    F, G, A = shape
    flag = ("rd", ("fld", THIS_OBJ, F))
    armed_c = ("cmp", A[0], flag, C(A[1]))
    disarmed_c = ("cmp", "!=" if A[0] == "==" else "==", flag, C(A[1]))
    if f.get("kind") == "dtor":
        ps = Engine(db, no_inline=_NOINL.get((id(db), f.get("rid")), set())).run(f)
        ok = True
        saw_run = False
        for p in ps:
            conds = q.resolve(q.conds_before(p, len(p.events)))
            runs = [e for e in p.events if e.kind == "CALL" and e.c is not None and q.mentions(e.c, lambda x: x == ("fld", THIS_OBJ, G))]
            # the flag is a known constant on this path (a switch / enum comparison): is that value the armed one?
            eqs = [c for c in conds if c[0] == "cmp" and c[1] == "==" and c[2] == flag and c[3][0] == "c"]
            is_armed = armed_c in conds or any(_is_armed(A, c[3]) for c in eqs)
            is_disarmed = disarmed_c in conds or any(_is_armed(A, c[3]) is False for c in eqs)
            if is_armed:
                saw_run = saw_run or len(runs) == 1
                ok = ok and len(runs) == 1
            elif is_disarmed:
                ok = ok and not runs
            else:
                ok = False
        if ok and saw_run:
            rep.ok(rule, site(f), "runs the function exactly once iff armed", inst)
        else:
            rep.violation(rule, site(f), "the destructor does not run the exit function exactly when the guard is armed", f["loc"], inst)
        return True
    if f.get("kind") == "ctor" and len(f["params"]) == 1:
        pt = f["params"][0]["t"] or {}
        ps = Engine(db).run(f)
        other = ("pobj", f["params"][0]["n"])
        for p in ps:
            st = {e.a[2]: e.b for e in p.events if e.kind == "STORE" and e.a[0] == "fld" and e.a[1] == THIS_OBJ}
            ot = {e.a[2]: e.b for e in p.events if e.kind == "STORE" and e.a[0] == "fld" and e.a[1] == other}
            if (pt.get("rn") or "").startswith(((db.rec_by_id.get(f.get("rid")) or {}).get("n") or "rlbox::detail::scope_exit")):
                if st.get(F) != ("rd", ("fld", other, F)) or _is_armed(A, ot.get(F)) is not False:
                    rep.violation(rule, site(f) + " [move]", "moving a scope guard must arm the destination iff the source was armed and disarm the source (got this.%s=%s, source.%s=%s)" % (
                        F, fmt(st.get(F)) if F in st else None, F, fmt(ot.get(F)) if F in ot else "unchanged"), f["loc"], inst)
                    return True
                rep.ok(rule, site(f) + " [move]", "destination armed iff source was; source disarmed", inst)
            else:
                if _is_armed(A, st.get(F)) is not True:
                    rep.violation(rule, site(f) + " [ctor]", "a freshly constructed scope guard is not armed", f["loc"], inst)
                    return True
                rep.ok(rule, site(f) + " [ctor]", "constructed armed", inst)
        return True
    return False
