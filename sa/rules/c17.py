"""C17 - indexing a tainted fixed-size array is bounds-checked for every index type."""
import re
from .. import facts, q, abi
from ..common import is_check_fn, stmt_always_aborts, site
from ..interval import Evaluator, Inconclusive as IvInconclusive, trange, merge, intersect, complement
from ..engine import Engine, Inconclusive, C, fmt
from . import ops

LEVEL = "proof"


def find_bound_check(db, f, count_only=False):
    """returns {var, t, A}: the index variable and the exact set of its values that pass the first abort check after it is formed
    (helpers / lambdas inlined and every form of abort check recognised: sa/astwalk.py)"""
    from ..astwalk import Walker, Hooks, Unhandled
    env = {}
    found = {}

    byvalue = set()
    found["fetches"] = 0

    def fresh_mention(e, depth=0):
        """does e reach the index parameter through references / helper reference parameters only (i.e. is it a new READ of the
        caller's index object, not a use of a value read earlier)?"""
        if isinstance(e, dict):
            if e.get("k") == "ref":
                if e.get("d") == f["params"][0]["d"]:
                    return True
                if depth < 6 and e.get("d") in env and e.get("d") not in byvalue and e.get("dk") in ("param", "local"):
                    return fresh_mention(env[e["d"]], depth + 1)
                return False
            return any(fresh_mention(v, depth) for v in e.values() if isinstance(v, (dict, list)))
        if isinstance(e, list):
            return any(fresh_mention(v, depth) for v in e)
        return False

    class H(Hooks):
        def decl(self, v):
            t_ = v.get("t") or {}
            if "init" in v and t_.get("k") in ("int", "bool", "enum") and not t_.get("ref"):
                if fresh_mention(v["init"]):
                    found["fetches"] += 1
                byvalue.add(v["d"])
            if "init" in v and "var" not in found and (v["t"] or {}).get("k") in ("int", "bool", "enum") and ops.mentions_param_env(v["init"], f["params"][0]["d"], env):
                # the index variable: initialised from the (unwrapped) rhs parameter
                found["var"] = v["d"]
                found["t"] = v["t"]

        def check(self, cond, positive, loc):
            if "var" in found and "A" not in found and not count_only:
                dom = [trange(found["t"])]
                env2 = {k: v for k, v in env.items() if k != found["var"]}
                T = Evaluator({found["var"]}, env2, db=db).sat(cond, dom)
                found["A"] = T if positive else complement(T, dom)

        def branch(self, st):
            # `if constexpr`-like run-time branches on wrapper kind do not occur in instantiations; walk both arms for the scan
            pass

    w = Walker(db, H(), env)
    try:
        w.walk(f["body"])
    except Unhandled as ex:
        raise IvInconclusive(str(ex))
    return found


def mentions_param(e, d):
    if isinstance(e, dict):
        if e.get("k") == "ref" and e.get("d") == d:
            return True
        return any(mentions_param(v, d) for v in e.values() if isinstance(v, (dict, list)))
    if isinstance(e, list):
        return any(mentions_param(v, d) for v in e)
    return False


def run(rep, tier):
    rep.rule("R-C17-bound", "for every instantiated (array type, index type, wrapper kind) of operator[] the exact set of index values passing the abort check equals [0, N-1] "
             "intersected with the index type's range, N being the first extent of the array type (exact interval-set evaluation incl. the unsigned cast)")
    rep.rule("R-C17-element", "the element designated is storage[index] with the same index value that was checked; storage is the host std::array for tainted and the guest-typed std::array "
             "for tainted_volatile, with N elements of the ABI-model size; the non-const overload forwards to the const one")
    backends = ["model32"] if tier == "quick" else ["model32", "noop"]
    dbs = facts.load_core(backends, ["ARR"], thorough=(tier == "thorough"))
    n = 0
    idx_types = set()
    for db in dbs:
        rep.units.append(db.label)
        for f in db.functions:
            if f["dep"] or "body" not in f or f["n"] != ops.BASE + "[]":
                continue
            T = ops.class_T(f) or {}
            if T.get("k") != "array":
                continue
            inst = "%s | %s" % (db.label, f["full"][:170])
            if not f.get("constm"):
                from .c05 import check_forward
                check_forward_arr(rep, db, f, inst)
                continue
            n += 1
            N = T.get("n")
            # ---- exact bound
            try:
                fd = find_bound_check(db, f)
            except IvInconclusive as ex:
                fd2 = None
                try:
                    fd2 = find_bound_check(db, f, count_only=True)
                except IvInconclusive:
                    pass
                if fd2 and fd2.get("fetches", 0) > 1 and "tainted_volatile" in ((f["params"][0]["t"] or {}).get("c") or ""):
                    rep.violation("R-C17-bound", site(f) + " [double fetch]", "the index, which lives in sandbox memory, is read %d times: the value that is bounds-checked need not be the value that selects the element" % fd2["fetches"], f["loc"], inst)
                    continue
                rep.inconclusive("R-C17-bound", site(f), str(ex), inst)
                continue
            if fd.get("fetches", 0) > 1 and "tainted_volatile" in ((f["params"][0]["t"] or {}).get("c") or ""):
                rep.violation("R-C17-bound", site(f) + " [double fetch]", "the index, which lives in sandbox memory, is read %d times: the value that is bounds-checked need not be the value that selects the element" % fd["fetches"], f["loc"], inst)
                continue
            if "A" not in fd:
                rep.violation("R-C17-bound", site(f) + " [array]", "no abort check on the index precedes the element access", f["loc"], inst)
                continue
            rng = trange(fd["t"])
            idx_types.add(fd["t"].get("u"))
            want = merge([(max(0, rng[0]), min(N - 1, rng[1]))])
            if fd["A"] == want:
                rep.ok("R-C17-bound", site(f) + " [array]", "index type %s, N=%d: accepted == %s" % (fd["t"].get("u"), N, want), inst)
            else:
                extra = complement(want, fd["A"])
                missing = complement(fd["A"], want)
                rep.violation("R-C17-bound", site(f) + " [array]", "index type %s, N=%d: the check accepts %s; out-of-range values accepted: %s; valid indices rejected: %s" % (
                    fd["t"].get("u"), N, fd["A"][:4], extra[:3], missing[:3]), f["loc"], inst, {"accepted": fd["A"], "want": want})
            # ---- element designation
            try:
                ps = Engine(db).run(f)
            except Inconclusive as ex:
                rep.inconclusive("R-C17-element", site(f), str(ex), inst)
                continue
            rhs = ("pobj", f["params"][0]["n"])
            wk = ops.wrapper_kind(f)
            for p in ps:
                acc = [e for e in p.events if e.kind == "CALL" and q.short(e.a) in ("operator[]", "at") and e.c == ("addr", ("fld", ops.THIS_OBJ, "data"))]
                rv_ = p.retval[1][1] if isinstance(p.retval, tuple) and p.retval[:1] == ("deref",) and isinstance(p.retval[1], tuple) and p.retval[1][:1] == ("addr",) else p.retval
                dat = [e for e in p.events if e.kind == "CALL" and q.short(e.a) in ("data", "begin", "cbegin") and e.c == ("addr", ("fld", ops.THIS_OBJ, "data"))]
                if not acc and len(dat) == 1 and isinstance(rv_, tuple) and rv_[:2] == ("idx", ("fld", ops.THIS_OBJ, "data")):
                    # equivalent idiom: storage.data() + index, i.e. element `index` of the wrapper's own std::array
                    if not ops.is_value_of(ops.strip_casts(rv_[2]), rhs, allow_cast=True):
                        rep.violation("R-C17-element", site(f) + " [array]", "the element is selected with %s, which is not the checked index value" % fmt(rv_[2]), f["loc"], inst)
                        break
                    a = dat[0]
                elif not acc:
                    # equivalent idiom: element located by byte offset from the wrapper's own address: this + index*sizeof(element)
                    why = offset_idiom_ok(db, p, rhs, T, wk)
                    if why is None:
                        continue
                    rep.violation("R-C17-element", site(f) + " [array]", why, f["loc"], inst)
                    break
                elif len(acc) != 1:
                    rep.violation("R-C17-element", site(f) + " [array]", "the wrapper's own storage is not indexed exactly once", f["loc"], inst)
                    break
                else:
                    a = acc[0]
                    if not ops.is_value_of(a.b[0], rhs, allow_cast=False):
                        rep.violation("R-C17-element", site(f) + " [array]", "the element is selected with %s, which is not the checked index value" % fmt(a.b[0]), f["loc"], inst)
                        break
                    if p.retval != ("deref", ("addr", (a.extra or {}).get("ret"))) and p.retval != (a.extra or {}).get("ret"):
                        rep.violation("R-C17-element", site(f) + " [array]", "the reference returned (%s) is not the selected element" % fmt(p.retval), f["loc"], inst)
                        break
                m = re.match(r"^std::array<(.*), (\d+)>::", a.a)
                if not m or int(m.group(2)) != N:
                    rep.violation("R-C17-element", site(f) + " [array]", "storage is %s, expected %d elements" % (a.a, N), f["loc"], inst)
                    break
                el = m.group(1)
                try:
                    want_sz = abi.size_align(db, T.get("el"), abi.abi_of(db.label) if wk == "tainted_volatile" else "host")[0]
                    got_sz = abi.size_align(db, el, "host")[0] if wk == "tainted" else None
                except abi.Unknown:
                    want_sz = got_sz = None
                vol_ok = ("volatile" in el) == (wk == "tainted_volatile")
                # element size of the storage as clang sees it
                st_sz = None
                for ty in db.types:
                    if ty and ty.get("c") == "std::array<%s, %d>" % (el, N) and "sz" in ty:
                        st_sz = ty["sz"] // N
                if want_sz is not None and st_sz is not None and st_sz != want_sz:
                    rep.violation("R-C17-element", site(f) + " [array]", "%s storage elements are %d bytes, the %s layout prescribes %d" % (wk, st_sz, "sandbox ABI" if wk == "tainted_volatile" else "application", want_sz), f["loc"], inst)
                    break
                if not vol_ok:
                    rep.violation("R-C17-element", site(f) + " [array]", "%s indexes %s storage" % (wk, "volatile" if "volatile" in el else "non-volatile"), f["loc"], inst)
                    break
            else:
                rep.ok("R-C17-element", site(f) + " [array]", "storage[index] of the wrapper's own %s std::array with the checked index" % ("guest" if wk == "tainted_volatile" else "host"), inst)
    rep.require(n >= 200, "only %d array operator[] instantiations analysed (floor 200)" % n)
    rep.require(len(idx_types) >= 10, "only %d index types seen" % len(idx_types))
    rep.extra.update({"instantiations": n, "index_types": sorted(x for x in idx_types if x)})
    rep.assumptions += ["std::array::operator[] designates element i of its storage"]


def offset_idiom_ok(db, p, rhs, T, wk):
    """returned reference is *(this + k*index) with k the element size of the wrapper's own layout; returns None if fine, else the reason"""
    from ..engine import lin as _lin
    r = p.retval
    if not (isinstance(r, tuple) and r[:1] == ("deref",)):
        return "the element is not taken from the wrapper's own storage (returned %s)" % fmt(r)[:100]
    def at_this(t):
        """addresses that coincide with `this`: the wrapper's single storage member and element 0 of it sit at offset 0"""
        if not isinstance(t, tuple):
            return t
        if t[:1] == ("addr",):
            lv = t[1]
            while isinstance(lv, tuple) and ((lv[:1] == ("idx",) and lv[2] == C(0)) or (lv[:1] == ("fld",) and lv[2] == "data")):
                lv = lv[1]
            if lv == ("deref", ("this",)):
                return ("this",)
            return t
        return tuple(at_this(x) for x in t)

    off = _lin("-", at_this(r[1]), ("this",))
    if not (isinstance(off, tuple) and off[0] in ("lin", "c")):
        off = ("lin", 0, ((off, 1),))
    try:
        want = abi.size_align(db, T.get("el"), abi.abi_of(db.label) if wk == "tainted_volatile" else "host")[0]
    except abi.Unknown:
        return None
    if off[0] == "lin" and off[1] == 0 and len(off[2]) == 1 and ops.is_value_of(ops.strip_casts(off[2][0][0]), rhs, allow_cast=True) and off[2][0][1] == want:
        return None
    return "the element address is this + %s, expected this + %d*index (element size of the %s layout)" % (fmt(off)[:80], want, "sandbox" if wk == "tainted_volatile" else "application")


def check_forward_arr(rep, db, f, inst):
    try:
        ps = Engine(db, no_inline={ops.BASE + "[]"}).run(f)
    except Inconclusive as ex:
        rep.inconclusive("R-C17-element", site(f), str(ex), inst)
        return
    for p in ps:
        cs = [e for e in p.events if e.kind == "CALL" and q.short(e.a) == "operator[]"]
        rhs = ("pobj", f["params"][0]["n"])
        if len(cs) == 1 and cs[0].c in (("this",), ("addr", ops.THIS_OBJ)) and cs[0].b == [rhs] and p.retval == (cs[0].extra or {}).get("ret"):
            rep.ok("R-C17-element", site(f) + " [non-const]", "forwards to the checked const overload", inst, nontrivial=False)
        else:
            rep.violation("R-C17-element", site(f) + " [non-const]", "non-const operator[] does not forward `this[rhs]` to the checked const overload", f["loc"], inst)
