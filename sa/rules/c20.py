"""C20 - opaque wrappers and sandbox casts preserve bits, designation and taint."""
from .. import facts, q
from ..engine import Engine, Inconclusive, C, fmt, subterms
from ..common import site
from . import ops
from .ops import strip_casts

THIS_OBJ = ("deref", ("this",))
CASTS = {"sandbox_reinterpret_cast": "CXXReinterpretCastExpr", "sandbox_const_cast": "CXXConstCastExpr", "sandbox_static_cast": "CXXStaticCastExpr"}


def explicit_casts(x, out, db=None, depth=0):
    """explicit casts written in a body - including the bodies of rlbox::detail helpers it calls (the conversion may have been
    moved into a shared helper; in an instantiation only the selected `if constexpr` arm is left)"""
    if isinstance(x, dict):
        if x.get("k") == "cast" and x.get("sk") in ("CXXReinterpretCastExpr", "CXXConstCastExpr", "CXXStaticCastExpr", "CStyleCastExpr", "CXXFunctionalCastExpr", "CXXDynamicCastExpr") and \
                (x.get("t") or {}).get("k") != "rec":   # `Tag{}` / `Class(x)` constructs an object, it is not a conversion of the value
            out.append(x)
        if db is not None and depth < 2 and x.get("k") == "call" and ((x.get("fn") or {}).get("n") or "").endswith("::operator()") and x.get("args"):
            # a call through a lambda held in a constexpr variable (template) of rlbox::detail: its body
            o_ = x["args"][0]
            while isinstance(o_, dict) and o_.get("k") in ("icast", "cast", "paren") and "e" in o_:
                o_ = o_["e"]
            if isinstance(o_, dict) and o_.get("k") == "ref" and o_.get("dk") == "global":
                if not hasattr(db, "_c20_global_lambdas"):
                    db._c20_global_lambdas = {}
                    for sv in db.statics:
                        ini = sv.get("init")
                        while isinstance(ini, dict) and ini.get("k") in ("icast", "cast", "paren", "mtemp", "bindtemp", "exprwc", "construct") and "e" in ini:
                            ini = ini["e"]
                        if isinstance(ini, dict) and ini.get("k") == "lambda":
                            db._c20_global_lambdas[sv.get("d")] = ini
                lam = db._c20_global_lambdas.get(o_.get("d"))
                if lam is not None:
                    spec = next((sp for sp in lam.get("specs", []) if sp.get("id") == (x.get("fn") or {}).get("id")), None)
                    body = (spec or lam).get("body")
                    if body is not None:
                        explicit_casts(body, out, db, depth + 1)
        if db is not None and depth < 2 and x.get("k") == "call" and ((x.get("fn") or {}).get("n") or "").startswith("rlbox::detail::"):
            g = db.fn_by_id.get((x.get("fn") or {}).get("id"))
            if g is not None and "body" in g and not g.get("dep") and not g["n"].endswith(("::unwrap_value", "::dynamic_check")):
                explicit_casts(g["body"], out, db, depth + 1)
        for v in x.values():
            if isinstance(v, (dict, list)):
                explicit_casts(v, out, db, depth)
    elif isinstance(x, list):
        for v in x:
            explicit_casts(v, out, db, depth)


def norm(s):
    return (s or "").replace(" ", "")


def run(rep, tier):
    rep.rule("W-C20-layout", "for every instantiated T: tainted_opaque<T,S> has exactly one non-static field, of type T; tainted_opaque<T,S> and tainted<T,S> have equal size and alignment and are both trivially copyable "
             "and trivially destructible (they are reinterpret_cast to one another and passed by value through reinterpreted function pointers)")
    rep.rule("R-C20-opaque", "to_opaque/from_opaque return a bitwise copy of the object they are applied to, typed as the sibling wrapper with identical T and T_Sbx")
    rep.rule("R-C20-cast", "each sandbox_X_cast applies exactly the C++ X_cast (AST node kind) to the unwrapped value of its argument, wraps the result unchanged, and returns tainted<T_Lhs, T_Sbx>")
    backends = ["model32", "noop"] if tier == "quick" else ["model32", "model32gi", "noop", "dylib"]
    dbs = facts.load_core(backends, ["PTR", "INVOKE", "ARR"], thorough=(tier == "thorough"))
    n = {"layout": 0, "opaque": 0, "cast": 0}
    rep.rule("R-C20-designation", "no library function constructs a tainted_volatile object (copy or otherwise): a tainted_volatile IS a cell of sandbox memory - its address is the example for decoding the pointer it "
             "holds - so a by-value copy on the application's stack, converted or cast afterwards, designates an address rebased onto application memory")
    n_scan = 0
    for db in dbs:
        for f in db.functions:
            if f["dep"] or "body" not in f or not f["n"].startswith("rlbox::"):
                continue
            n_scan += 1
            stack = [f["body"]] + [i_.get("e") for i_ in (f.get("inits") or [])]
            hit = None
            while stack and hit is None:
                x = stack.pop()
                if isinstance(x, dict):
                    t_ = x.get("t") if isinstance(x.get("t"), dict) else {}
                    if x.get("k") == "ctor" and (t_.get("rn") or "") == "rlbox::tainted_volatile":
                        hit = x
                        break
                    stack.extend(v for v in x.values() if isinstance(v, (dict, list)))
                elif isinstance(x, list):
                    stack.extend(v for v in x if isinstance(v, (dict, list)))
            inst_ = "%s | %s" % (db.label, f["full"][:150])
            if hit is not None:
                rep.violation("R-C20-designation", site(f) + " [volatile copy]", "%s constructs a tainted_volatile object by value%s: the copy lives in application memory, and whatever is decoded or cast from it "
                              "is rebased onto the copy's address instead of the sandbox cell's" % (f["sn"], " (a copy of another one)" if hit.get("copymove") else ""), hit.get("loc") or f["loc"], inst_)
            elif f["sn"].startswith("sandbox_") and f["sn"].endswith("_cast"):
                rep.ok("R-C20-designation", site(f), "no tainted_volatile object is constructed", inst_)
    rep.require(n_scan >= 1000, "only %d library functions scanned for tainted_volatile constructions (floor 1000)" % n_scan)
    rep.rule("R-C20-invoke", "a tainted_opaque argument of a sandbox call reaches the backend exactly like the tainted value it stands for: through the checked conversion, never through a plain C++ conversion, and in the "
             "sandbox-ABI representation (shared analysis with C11's R-C11-args / R-C11-abi, on the instantiations that take tainted_opaque parameters)")
    from . import c11 as _c11
    from ..report import RuleView
    for db in dbs:
        for f in db.functions:
            if f["dep"] or "body" not in f or f["n"] != "rlbox::rlbox_sandbox::INTERNAL_invoke_with_func_ptr":
                continue
            if not any("tainted_opaque<" in ((p_["t"] or {}).get("c") or "") for p_ in f["params"]):
                continue
            inst_ = "%s | %s" % (db.label, f["full"][:150])
            try:
                _c11.check_invoke(RuleView(rep, {"R-C11-args": "R-C20-invoke", "R-C11-abi": "R-C20-invoke"}), db, f, inst_)
            except Inconclusive as ex:
                rep.inconclusive("R-C20-invoke", site(f), str(ex), inst_)
    for db in dbs:
        rep.units.append(db.label)
        tainted_by_args = {}
        for r in db.records:
            if r["n"] == "rlbox::tainted" and not r["dep"] and "size" in r:
                tainted_by_args[tuple(norm(x) for x in (r.get("targs") or []))] = r
        for r in db.records:
            if r["n"] != "rlbox::tainted_opaque" or r["dep"] or "size" not in r:
                continue
            key = tuple(norm(x) for x in (r.get("targs") or []))
            inst = "%s | tainted_opaque<%s>" % (db.label, (r.get("targs") or ["?"])[0])
            n["layout"] += 1
            Tn = (r.get("targs") or [""])[0]
            bad = None
            if len(r["fields"]) != 1 or norm((r["fields"][0]["t"] or {}).get("s")) not in (norm(Tn), "T") and norm((r["fields"][0]["t"] or {}).get("c")) != norm(canon_of(db, r)):
                bad = "tainted_opaque must consist of exactly one field of type T (found %s)" % [(fl["n"], (fl["t"] or {}).get("c")) for fl in r["fields"]]
            elif not r.get("trivcopy") or not r.get("trivdtor"):
                bad = "tainted_opaque<%s> is not trivially copyable/destructible" % Tn
            t = tainted_by_args.get(key)
            if bad is None and t is not None:
                if (t["size"], t["align"]) != (r["size"], r["align"]):
                    bad = "tainted_opaque<%s> is %s bytes/align %s but tainted<%s> is %s/%s" % (Tn, r["size"], r["align"], Tn, t["size"], t["align"])
                elif not t.get("trivcopy") or not t.get("trivdtor"):
                    bad = "tainted<%s> is not trivially copyable/destructible although it is reinterpreted as tainted_opaque" % Tn
            if bad:
                rep.violation("W-C20-layout", "rlbox::tainted_opaque", bad, r["loc"], inst)
            else:
                rep.ok("W-C20-layout", "rlbox::tainted_opaque", "one field of T; same size/alignment as tainted<T>%s; trivially copyable" % ("" if t is not None else " (no tainted<T> layout in this unit)"), inst, nontrivial=t is not None)
        for f in db.functions:
            if f["dep"] or "body" not in f:
                continue
            inst = "%s | %s" % (db.label, f["full"][:170])
            try:
                if f["n"] in ("rlbox::tainted::to_opaque", "rlbox::from_opaque"):
                    check_opaque(rep, db, f, inst); n["opaque"] += 1
                elif f["n"] in ("rlbox::" + k for k in CASTS):
                    check_cast(rep, db, f, inst); n["cast"] += 1
            except Inconclusive as ex:
                rep.inconclusive("R-C20", site(f), str(ex), inst)
    rep.require(n["layout"] >= 20, "only %d tainted_opaque layouts (floor 20)" % n["layout"])
    rep.require(n["opaque"] >= 30, "only %d to/from_opaque instantiations (floor 30)" % n["opaque"])
    rep.require(n["cast"] >= 60, "only %d sandbox cast instantiations (floor 60)" % n["cast"])
    rep.extra["instances"] = n
    rep.assumptions += ["bit patterns are not enumerated: a bitwise copy between layout-identical trivially-copyable types preserves every value"]


def canon_of(db, r):
    tt = r.get("targt") or []
    return (tt[0] or {}).get("c") if tt else None


def check_opaque(rep, db, f, inst):
    rule = "R-C20-opaque"
    if (f.get("ret") or {}).get("ref"):
        # "a bitwise COPY": a reference result aliases the operand - it changes when the opaque slot is reassigned and dangles
        # when the operand was a temporary
        rep.violation(rule, site(f) + " [by value]", "%s returns a reference (%s) to its operand instead of an independent value of the sibling wrapper type" % (f["sn"], (f["ret"] or {}).get("c")), f["loc"], inst)
        return
    ps = Engine(db).run(f)
    src = THIS_OBJ if f["sn"] == "to_opaque" else ("pobj", f["params"][0]["n"])
    ret_c = (f.get("ret") or {}).get("c") or ""
    if f["sn"] == "to_opaque":
        ca = f.get("ctargs") or []
        want = "rlbox::tainted_opaque<%s>" % ", ".join(ca)
    else:
        pc = (f["params"][0]["t"] or {}).get("c") or ""
        want = pc.replace("rlbox::tainted_opaque<", "rlbox::tainted<", 1)
    if norm(ret_c) != norm(want):
        rep.violation(rule, site(f), "returns %s, expected the sibling wrapper %s with identical T and sandbox type" % (ret_c, want), f["loc"], inst)
        return
    size = (db.rec_by_id.get(f.get("rid")) or {}).get("size")

    def root_obj(lv):
        while isinstance(lv, tuple) and lv and lv[0] in ("fld", "idx"):
            lv = lv[1]
        return lv

    how = "bitwise copy"
    for p in ps:
        r = p.retval
        for _ in range(4):
            c_ = p.state.mem.get(("copyof", r)) if isinstance(r, tuple) else None
            if c_ is None:
                break
            r = c_
        stores = [(i, e) for i, e in enumerate(p.events) if e.kind == "STORE"]
        if any(root_obj(e.a) == src for _i, e in stores):
            rep.violation(rule, site(f), "the conversion modifies the object converted", f["loc"], inst)
            return
        if r == src:
            if stores:
                rep.violation(rule, site(f), "the conversion modifies data", f["loc"], inst)
                return
            continue
        # second idiom: a local result object filled by one whole-object byte copy from the source
        ok = False
        if isinstance(r, tuple) and r[:1] in (("var",), ("tmp",)):
            for i, e in enumerate(p.events):
                if e.kind == "CALL" and q.short(e.a) in ("memcpy", "memmove", "__builtin_memcpy", "__builtin_memmove") and len(e.b) >= 3:
                    d, s_, n_ = strip_casts(e.b[0]), strip_casts(e.b[1]), e.b[2]
                    dst_ok = d[:1] == ("addr",) and root_obj(d[1]) == r and d[1] in (r, ("fld", r, "data"))
                    src_ok = s_[:1] == ("addr",) and s_[1] in (src, ("fld", src, "data")) or (s_ == ("this",) and src == THIS_OBJ)
                    if dst_ok and src_ok:
                        if n_ != C(size):
                            rep.violation(rule, site(f), "the result is filled with a byte copy of %s bytes; the object converted occupies %s bytes" % (fmt(n_), size), e.loc, inst)
                            return
                        if any(j > i and root_obj(e2.a) == r for j, e2 in stores):
                            break
                        ok = True
                        how = "whole-object byte copy"
        if not ok:
            rep.violation(rule, site(f), "the object returned is not a bitwise copy of the object converted (%s)" % fmt(r), f["loc"], inst)
            return
    rep.ok(rule, site(f), "%s typed as %s" % (how, want[:80]), inst)


def check_cast(rep, db, f, inst):
    rule = "R-C20-cast"
    want_kind = CASTS[f["sn"]]
    ex = []
    explicit_casts(f["body"], ex, db)
    tt0 = f.get("targt") or []
    TL, TR = (tt0[0] or {}) if tt0 else {}, (tt0[1] or {}) if len(tt0) > 1 else {}
    if f["sn"] == "sandbox_static_cast" and TL.get("k") == "int" and TR.get("k") == "int":
        # integer -> integer: judged by VALUE, whatever the number of casts written: the chain of conversions applied to the
        # argument must equal the single conversion static_cast<T_Lhs> for every source value
        return check_int_cast_chain(rep, db, f, inst, TL, TR)
    if len(ex) != 1:
        rep.violation(rule, site(f), "%s must apply exactly one conversion to the unwrapped value; found %d explicit casts" % (f["sn"], len(ex)), f["loc"], inst)
        return
    # judge the *conversion performed* (clang's cast kind and the operand types), not the spelling of the cast
    ck = ex[0]["ck"]
    tt_ = ex[0].get("t") or {}
    st_ = (ex[0]["e"].get("t") or {})
    def unq(t):
        import re as _re
        return _re.sub(r"\b(const|volatile)\b", "", (t.get("c") or "")).replace(" ", "")
    if f["sn"] == "sandbox_const_cast":
        okc = ck == "NoOp" and unq(tt_) == unq(st_)
        why = "const_cast may only change cv-qualification (cast kind %s from %s to %s)" % (ck, st_.get("c"), tt_.get("c"))
    elif f["sn"] == "sandbox_reinterpret_cast":
        okc = ck in ("BitCast", "NoOp", "IntegralToPointer", "PointerToIntegral", "ReinterpretMemberPointer")
        why = "reinterpret_cast may not perform a %s conversion" % ck
    else:
        okc = ck in ("IntegralCast", "FloatingCast", "IntegralToFloating", "FloatingToIntegral", "IntegralToBoolean", "FloatingToBoolean", "NoOp", "DerivedToBase", "BaseToDerived", "NullToPointer", "BooleanToSignedIntegral") or \
              (ck == "BitCast" and ("void" in (st_.get("pteu") or "") or "void" in (tt_.get("pteu") or "")))
        why = "static_cast cannot perform a %s conversion from %s to %s (the cast used accepts more than static_cast does)" % (ck, st_.get("c"), tt_.get("c"))
    if not okc:
        rep.violation(rule, site(f), why, f["loc"], inst)
        return
    tt = f.get("targt") or []
    tlhs = (tt[0] or {}).get("c") if tt else None
    sbx = (tt[2] or {}).get("c") if len(tt) > 2 else None
    ret_c = (f.get("ret") or {}).get("c") or ""
    if norm(ret_c) != norm("rlbox::tainted<%s, %s>" % (tlhs, sbx)):
        rep.violation(rule, site(f), "returns %s, expected tainted<%s, %s>" % (ret_c, tlhs, sbx), f["loc"], inst)
        return
    ps = Engine(db).run(f)
    rhs = ("pobj", f["params"][0]["n"])
    trhs = (tt[1] or {}).get("c") if len(tt) > 1 else None
    for p in ps:
        # a pointer read out of sandbox memory must be translated as the SOURCE's pointer type (function pointers and data
        # pointers may be encoded differently by the backend)
        for e in p.events:
            if e.kind == "CALL" and q.short(e.a).startswith("impl_get_unsandboxed_pointer"):
                ta = (e.extra or {}).get("ta") or []
                if ta and trhs and norm(ta[0]) != norm(trhs):
                    rep.violation(rule, site(f) + " [translation type]", "the source cell of type %s is translated as %s: the address/function designated can change when the backend encodes the two pointer kinds differently" % (trhs, ta[0]), e.loc, inst)
                    return
        v = ops.ret_data(p)
        if v is None:
            rep.inconclusive(rule, site(f), "cannot determine the returned value", inst)
            return
        if v == C(0):
            conds = q.conds_before(p, len(p.events))
            if any(q.mentions(c, lambda x: ops.is_value_of(x, rhs)) for c in conds):
                continue
        if not ops.is_value_of(strip_casts(v), rhs):
            rep.violation(rule, site(f), "the value wrapped is %s, not the cast of the argument's value" % fmt(v)[:120], f["loc"], inst)
            return
    rep.ok(rule, site(f), "%s of the argument's value, wrapped unchanged" % want_kind.replace("CXX", "").replace("Expr", ""), inst)


def type_by_name(db, name):
    for t in db.types:
        if t and t.get("k") in ("int", "bool") and (t.get("u") == name or t.get("c") == name):
            return t
    return None


def check_int_cast_chain(rep, db, f, inst, TL, TR):
    """sandbox_static_cast<L>(wrapper<R>) for integer L, R: two's-complement conversions are ring homomorphisms, so a chain
    R -> U1 -> ... -> Un -> L equals R -> L for every value iff, walking the chain, the value is either still exactly the source
    value (every Ui so far could represent every value of R) or known modulo 2^m with m >= width(L)."""
    rule = "R-C20-cast"
    tt = f.get("targt") or []
    tlhs = (tt[0] or {}).get("c") if tt else None
    sbx = (tt[2] or {}).get("c") if len(tt) > 2 else None
    ret_c = (f.get("ret") or {}).get("c") or ""
    if norm(ret_c) != norm("rlbox::tainted<%s, %s>" % (tlhs, sbx)):
        rep.violation(rule, site(f), "returns %s, expected tainted<%s, %s>" % (ret_c, tlhs, sbx), f["loc"], inst)
        return
    from ..interval import trange
    rhs = ("pobj", f["params"][0]["n"])
    for p in Engine(db).run(f):
        v = ops.ret_data(p)
        if v is None:
            rep.inconclusive(rule, site(f), "cannot determine the returned value", inst)
            return
        chain = []
        t = v
        while isinstance(t, tuple) and t[:1] in (("cast",), ("xcast",)):
            chain.append(t[1])
            t = t[2]
        if not ops.is_value_of(strip_casts(t), rhs):
            rep.violation(rule, site(f), "the value wrapped is %s, not a conversion of the argument's value" % fmt(v)[:120], f["loc"], inst)
            return
        lo, hi = trange(TR)
        exact, m = True, None   # value == source exactly / value known modulo 2^m
        for name in reversed(chain):  # innermost conversion first
            U = type_by_name(db, name)
            if U is None or U.get("k") == "bool":
                rep.inconclusive(rule, site(f), "conversion through %s cannot be judged" % name, inst)
                return
            ulo, uhi = trange(U)
            if exact and ulo <= lo and hi <= uhi:
                continue
            exact = False
            m = U["w"] if m is None else min(m, U["w"])
        if not exact and (m is None or m < TL["w"]) and TL.get("k") != "bool":
            bad = next(n_ for n_ in reversed(chain) if (type_by_name(db, n_) or {}).get("w", 99) < TL["w"] or True)
            rep.violation(rule, site(f), "sandbox_static_cast<%s>(%s) converts through %s: for source values that %s cannot represent the result differs from static_cast<%s> (e.g. %d)" % (
                TL.get("u"), TR.get("u"), " -> ".join(reversed(chain)), bad, TL.get("u"), lo if lo < 0 else hi), f["loc"], inst)
            return
    rep.ok(rule, site(f), "value equals static_cast<%s> of the argument for every source value" % TL.get("u"), inst)
