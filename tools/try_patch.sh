#!/bin/sh
# usage: tools/try_patch.sh <patch.diff> <Cxx> [<Cyy> ...]
# Applies a seeded change to /repo's working tree, runs the named checks (quick tier), and reverts.
P="$1"; shift
git -C /repo apply "$P" || { echo "patch does not apply"; exit 3; }
trap 'git -C /repo checkout -- . ' EXIT
for c in "$@"; do
  echo "--- $c on $(basename $(dirname $P))/$(basename $P)"
  /verif/check "$c" --tier ${TIER:-quick} 2>&1 | grep -E "^VIOLATION|^  rule|ANALYSIS-BROKEN|new violations" | cut -c1-300 | head -${LINES_MAX:-8}
  echo "exit=$?"
done
