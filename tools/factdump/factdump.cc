// factdump: clang-14 frontend plugin that serialises the *resolved program*
// (template patterns and every instantiation whose definition lies under
// code/include of the analysed repository, plus the driver's own helper
// functions on request) as JSON facts.  It contains no rule.
//
// Usage: clang++ -fsyntax-only -fplugin=factdump.so
//          -Xclang -plugin-arg-factdump -Xclang out=<file>
//          [-Xclang -plugin-arg-factdump -Xclang root=<substring of repo path>]
//          [-Xclang -plugin-arg-factdump -Xclang also=<substring>]  driver.cpp
#include "clang/AST/ASTConsumer.h"
#include "clang/AST/DeclFriend.h"
#include "clang/AST/DeclTemplate.h"
#include "clang/AST/ExprCXX.h"
#include "clang/AST/RecordLayout.h"
#include "clang/AST/RecursiveASTVisitor.h"
#include "clang/AST/StmtCXX.h"
#include "clang/Frontend/CompilerInstance.h"
#include "clang/Frontend/FrontendPluginRegistry.h"
#include "clang/Lex/Lexer.h"
#include "llvm/Support/JSON.h"
#include "llvm/Support/Path.h"
#include "llvm/Support/raw_ostream.h"
#include <map>
#include <set>
using namespace clang;
namespace json = llvm::json;
namespace {

struct Opts {
  std::string out = "facts.json";
  std::vector<std::string> roots{"/code/include/"};
};

struct Dumper {
  ASTContext &C;
  SourceManager &SM;
  PrintingPolicy PP;
  const Opts &O;
  std::map<const Decl *, int> ids;
  int next = 1;
  Dumper(ASTContext &C, const Opts &O)
      : C(C), SM(C.getSourceManager()), PP(C.getLangOpts()), O(O) {
    PP.SuppressTagKeyword = true;
    PP.Bool = true;
    PP.SuppressUnwrittenScope = false;
  }
  int id(const Decl *D) {
    if (!D)
      return 0;
    D = D->getCanonicalDecl();
    auto it = ids.find(D);
    if (it != ids.end())
      return it->second;
    return ids[D] = next++;
  }
  bool inRoots(SourceLocation L) {
    if (L.isInvalid())
      return false;
    auto E = SM.getExpansionLoc(L);
    StringRef f = SM.getFilename(E);
    if (f.empty()) {
      PresumedLoc P = SM.getPresumedLoc(E);
      if (P.isValid())
        f = P.getFilename();
    }
    for (auto &r : O.roots)
      if (f.contains(r))
        return true;
    return false;
  }
  json::Value loc(SourceLocation L) {
    if (L.isInvalid())
      return nullptr;
    auto E = SM.getExpansionLoc(L);
    auto S = SM.getSpellingLoc(L);
    std::string r = llvm::sys::path::filename(SM.getFilename(E)).str() + ":" +
                    std::to_string(SM.getExpansionLineNumber(E));
    if (L.isMacroID()) {
      r += "@" + llvm::sys::path::filename(SM.getFilename(S)).str() + ":" +
           std::to_string(SM.getSpellingLineNumber(S)) + "#" +
           Lexer::getImmediateMacroName(L, SM, C.getLangOpts()).str();
    }
    return r;
  }
  static bool isLambdaTy(QualType T) {
    if (T.isNull())
      return false;
    QualType NR = T.getNonReferenceType();
    if (auto *RD = NR->getAsCXXRecordDecl())
      return RD->isLambda();
    return false;
  }
  static bool weird(QualType T) {
    if (T.isNull())
      return true;
    if (isLambdaTy(T))
      return false;
    if (T->isDependentType() || T->isUndeducedType() ||
        T->isPlaceholderType() || T->containsUnexpandedParameterPack())
      return true;
    QualType CT = T.getCanonicalType();
    if (CT->isDependentType())
      return true;
    if (isa<AutoType>(CT.getNonReferenceType().getTypePtr()))
      return true;
    return false;
  }
  std::map<std::string, int> typeIdx;
  json::Array typeTab;
  json::Value type(QualType T) {
    if (T.isNull())
      return nullptr;
    std::string key = T.getAsString(PP) + "|" + T.getCanonicalType().getAsString(PP);
    auto it = typeIdx.find(key);
    if (it != typeIdx.end())
      return it->second;
    int idx = (int)typeTab.size();
    typeIdx[key] = idx;
    typeTab.push_back(nullptr);
    typeTab[idx] = typeObj(T);
    return idx;
  }
  json::Value typeObj(QualType T) {
    json::Object o;
    o["s"] = T.getAsString(PP);
    QualType CT = T.getCanonicalType();
    o["c"] = CT.getAsString(PP);
    if (weird(T)) {
      o["dep"] = true;
      return std::move(o);
    }
    QualType NR = CT.getNonReferenceType();
    if (CT->isLValueReferenceType())
      o["ref"] = "l";
    else if (CT->isRValueReferenceType())
      o["ref"] = "r";
    if (NR.isVolatileQualified())
      o["vol"] = true;
    if (NR.isConstQualified())
      o["const"] = true;
    QualType U = NR.getUnqualifiedType();
    o["u"] = U.getAsString(PP);
    if (U->isBooleanType()) {
      o["k"] = "bool";
      o["w"] = 8;
    } else if (U->isIntegralOrEnumerationType()) {
      bool complete = !U->isIncompleteType();
      o["k"] = U->isEnumeralType() ? "enum" : "int";
      if (complete) {
        o["w"] = (int64_t)C.getTypeSize(U);
        o["sg"] = U->isSignedIntegerOrEnumerationType();
      }
    } else if (U->isFloatingType()) {
      o["k"] = "float";
      o["w"] = (int64_t)C.getTypeSize(U);
    } else if (U->isFunctionPointerType()) {
      o["k"] = "fnptr";
      o["pte"] = U->getPointeeType().getCanonicalType().getAsString(PP);
    } else if (U->isPointerType()) {
      o["k"] = "ptr";
      QualType P = U->getPointeeType().getCanonicalType();
      o["pte"] = P.getAsString(PP);
      o["pteu"] = P.getUnqualifiedType().getAsString(PP);
      if (P.isVolatileQualified())
        o["ptevol"] = true;
      if (!P->isIncompleteType() && !P->isFunctionType() && !P->isVoidType() &&
          !P->isDependentType())
        o["ptesz"] = (int64_t)C.getTypeSizeInChars(P).getQuantity();
      if (auto *RD = P->getAsCXXRecordDecl())
        o["pterid"] = id(RD);
    } else if (U->isArrayType()) {
      o["k"] = "array";
      if (auto *CA = C.getAsConstantArrayType(U)) {
        o["n"] = (int64_t)CA->getSize().getZExtValue();
        o["el"] = CA->getElementType().getCanonicalType().getAsString(PP);
      }
    } else if (U->isRecordType()) {
      o["k"] = "rec";
      if (auto *RD = U->getAsCXXRecordDecl()) {
        o["rid"] = id(RD);
        o["rn"] = RD->getQualifiedNameAsString();
      }
    } else if (U->isVoidType())
      o["k"] = "void";
    else if (U->isNullPtrType())
      o["k"] = "nullptr";
    else if (U->isFunctionType())
      o["k"] = "fn";
    else if (U->isMemberPointerType())
      o["k"] = "memptr";
    if (isLambdaTy(U))
      o["lambda"] = true;
    if (!U->isIncompleteType() && !U->isFunctionType() && !U->isVoidType() && !isLambdaTy(U)) {
      o["sz"] = (int64_t)C.getTypeSizeInChars(U).getQuantity();
      o["al"] = (int64_t)C.getTypeAlignInChars(U).getQuantity();
    }
    return std::move(o);
  }
  json::Value fnref(const FunctionDecl *FD) {
    json::Object o;
    o["id"] = id(FD);
    o["n"] = FD->getQualifiedNameAsString();
    if (FD->isNoReturn())
      o["noret"] = true;
    return std::move(o);
  }
  void tryConst(const Expr *E, json::Object &o) {
    if (E->getType().isNull() || E->isValueDependent() ||
        E->isTypeDependent() || E->containsErrors())
      return;
    if (weird(E->getType()))
      return;
    if (!E->getType()->isIntegralOrEnumerationType())
      return;
    if (E->getType()->isIncompleteType())
      return;
    if (E->isGLValue() && !isa<DeclRefExpr>(E))
      return;
    Expr::EvalResult R;
    if (E->EvaluateAsInt(R, C, Expr::SE_NoSideEffects)) {
      llvm::SmallString<40> s;
      R.Val.getInt().toString(s, 10);
      o["cv"] = s.str().str();
    }
  }
  json::Array exprs(llvm::iterator_range<CallExpr::const_arg_iterator> r) {
    json::Array a;
    for (auto *x : r)
      a.push_back(expr(x));
    return a;
  }
  json::Value lambda(const LambdaExpr *X, json::Object o) {
    o["k"] = "lambda";
    auto *M = X->getCallOperator();
    o["fn"] = fnref(M);
    json::Array ps;
    for (auto *P : M->parameters()) {
      json::Object p;
      p["d"] = id(P);
      p["n"] = P->getNameAsString();
      p["t"] = type(P->getType());
      ps.push_back(std::move(p));
    }
    o["params"] = std::move(ps);
    json::Array caps;
    for (auto &cap : X->captures()) {
      json::Object c;
      if (cap.capturesThis())
        c["this"] = true;
      else if (cap.capturesVariable()) {
        c["d"] = id(cap.getCapturedVar());
        c["n"] = cap.getCapturedVar()->getNameAsString();
      }
      c["byref"] = cap.getCaptureKind() == LCK_ByRef;
      caps.push_back(std::move(c));
    }
    o["caps"] = std::move(caps);
    o["defcap"] = (int)X->getCaptureDefault();
    if (M->hasBody())
      o["body"] = stmt(M->getBody());
    return std::move(o);
  }
  json::Value expr(const Expr *E) {
    if (!E)
      return nullptr;
    // transparent wrappers
    if (auto *X = dyn_cast<ConstantExpr>(E))
      return expr(X->getSubExpr());
    if (auto *X = dyn_cast<ParenExpr>(E))
      return expr(X->getSubExpr());
    if (auto *X = dyn_cast<ExprWithCleanups>(E))
      return expr(X->getSubExpr());
    if (auto *X = dyn_cast<MaterializeTemporaryExpr>(E))
      return expr(X->getSubExpr());
    if (auto *X = dyn_cast<CXXBindTemporaryExpr>(E))
      return expr(X->getSubExpr());
    if (auto *X = dyn_cast<SubstNonTypeTemplateParmExpr>(E))
      return expr(X->getReplacement());
    if (auto *X = dyn_cast<CXXDefaultArgExpr>(E))
      return expr(X->getExpr());
    if (auto *X = dyn_cast<CXXDefaultInitExpr>(E))
      return expr(X->getExpr());
    if (auto *X = dyn_cast<OpaqueValueExpr>(E))
      if (X->getSourceExpr())
        return expr(X->getSourceExpr());
    json::Object o;
    o["t"] = type(E->getType());
    o["loc"] = loc(E->getExprLoc());
    if (E->isLValue())
      o["lv"] = true;
    tryConst(E, o);
    auto kids = [&](const Stmt *S) {
      json::Array a;
      for (auto *c : S->children())
        if (auto *ce = dyn_cast_or_null<Expr>(c))
          a.push_back(expr(ce));
        else
          a.push_back(stmt(c));
      return a;
    };
    if (auto *X = dyn_cast<ImplicitCastExpr>(E)) {
      o["k"] = "icast";
      o["ck"] = X->getCastKindName();
      o["e"] = expr(X->getSubExpr());
    } else if (auto *X = dyn_cast<ExplicitCastExpr>(E)) {
      o["k"] = "cast";
      o["ck"] = X->getCastKindName();
      o["sk"] = X->getStmtClassName();
      o["e"] = expr(X->getSubExpr());
    } else if (auto *X = dyn_cast<DeclRefExpr>(E)) {
      o["k"] = "ref";
      auto *D = X->getDecl();
      o["d"] = id(D);
      o["n"] = D->getNameAsString();
      if (isa<ParmVarDecl>(D)) {
        o["dk"] = "param";
        o["pi"] = (int64_t)cast<ParmVarDecl>(D)->getFunctionScopeIndex();
      } else if (auto *V = dyn_cast<VarDecl>(D)) {
        o["dk"] = V->hasGlobalStorage() ? "global" : "local";
        if (V->hasGlobalStorage())
          o["qn"] = V->getQualifiedNameAsString();
      } else if (isa<FunctionDecl>(D)) {
        o["dk"] = "fn";
        o["fn"] = fnref(cast<FunctionDecl>(D));
      } else if (isa<EnumConstantDecl>(D)) {
        o["dk"] = "enumc";
      } else
        o["dk"] = D->getDeclKindName();
    } else if (auto *X = dyn_cast<MemberExpr>(E)) {
      o["k"] = "member";
      o["d"] = id(X->getMemberDecl());
      o["n"] = X->getMemberDecl()->getNameAsString();
      o["arrow"] = X->isArrow();
      if (auto *FD = dyn_cast<FunctionDecl>(X->getMemberDecl()))
        o["fn"] = fnref(FD);
      if (auto *VD = dyn_cast<VarDecl>(X->getMemberDecl())) {
        o["static"] = true;
        o["qn"] = VD->getQualifiedNameAsString();
      }
      o["e"] = expr(X->getBase());
    } else if (isa<CXXThisExpr>(E)) {
      o["k"] = "this";
    } else if (isa<IntegerLiteral>(E) || isa<CXXBoolLiteralExpr>(E) ||
               isa<CharacterLiteral>(E)) {
      o["k"] = "lit";
    } else if (isa<FloatingLiteral>(E)) {
      o["k"] = "flit";
    } else if (isa<CXXNullPtrLiteralExpr>(E) || isa<GNUNullExpr>(E)) {
      o["k"] = "null";
    } else if (auto *X = dyn_cast<StringLiteral>(E)) {
      o["k"] = "str";
      if (X->isAscii())
        o["v"] = X->getString().str();
    } else if (auto *X = dyn_cast<UnaryOperator>(E)) {
      o["k"] = "un";
      o["op"] = UnaryOperator::getOpcodeStr(X->getOpcode()).str();
      o["post"] = X->isPostfix();
      o["e"] = expr(X->getSubExpr());
    } else if (auto *X = dyn_cast<BinaryOperator>(E)) {
      o["k"] = "bin";
      o["op"] = X->getOpcodeStr().str();
      o["l"] = expr(X->getLHS());
      o["r"] = expr(X->getRHS());
    } else if (auto *X = dyn_cast<UnaryExprOrTypeTraitExpr>(E)) {
      o["k"] = "sizeof";
      o["kind"] = (int)X->getKind();
      o["arg"] = type(X->getTypeOfArgument());
      if (!X->isArgumentType())
        o["arge"] = expr(X->getArgumentExpr());
    } else if (auto *X = dyn_cast<CXXOperatorCallExpr>(E)) {
      o["k"] = "call";
      o["opcall"] = getOperatorSpelling(X->getOperator());
      if (auto *FD = X->getDirectCallee()) {
        o["fn"] = fnref(FD);
        if (isa<CXXMethodDecl>(FD) && !cast<CXXMethodDecl>(FD)->isStatic())
          o["member"] = true;
      } else
        o["callee"] = expr(X->getCallee());
      o["args"] = exprs(X->arguments());
    } else if (auto *X = dyn_cast<CXXMemberCallExpr>(E)) {
      o["k"] = "call";
      if (auto *FD = X->getMethodDecl())
        o["fn"] = fnref(FD);
      else
        o["callee"] = expr(X->getCallee());
      o["obj"] = expr(X->getImplicitObjectArgument());
      if (auto *ME = dyn_cast<MemberExpr>(X->getCallee()->IgnoreParens()))
        o["arrow"] = ME->isArrow();
      o["args"] = exprs(X->arguments());
    } else if (auto *X = dyn_cast<CallExpr>(E)) {
      o["k"] = "call";
      if (auto *FD = X->getDirectCallee())
        o["fn"] = fnref(FD);
      else
        o["callee"] = expr(X->getCallee());
      o["args"] = exprs(X->arguments());
    } else if (auto *X = dyn_cast<CXXConstructExpr>(E)) {
      o["k"] = "ctor";
      o["fn"] = fnref(X->getConstructor());
      auto *CD = X->getConstructor();
      if (CD->isCopyOrMoveConstructor())
        o["copymove"] = true;
      if (CD->isTrivial())
        o["trivial"] = true;
      if (CD->isDefaultConstructor())
        o["default"] = true;
      if (X->isElidable())
        o["elidable"] = true;
      o["rid"] = id(CD->getParent());
      json::Array a;
      for (auto *arg : X->arguments())
        a.push_back(expr(arg));
      o["args"] = std::move(a);
    } else if (auto *X = dyn_cast<LambdaExpr>(E)) {
      return lambda(X, std::move(o));
    } else if (auto *X = dyn_cast<ArraySubscriptExpr>(E)) {
      o["k"] = "idx";
      o["l"] = expr(X->getBase());
      o["r"] = expr(X->getIdx());
    } else if (auto *X = dyn_cast<ConditionalOperator>(E)) {
      o["k"] = "cond";
      o["c"] = expr(X->getCond());
      o["l"] = expr(X->getTrueExpr());
      o["r"] = expr(X->getFalseExpr());
    } else if (auto *X = dyn_cast<CXXThrowExpr>(E)) {
      o["k"] = "throw";
      if (X->getSubExpr())
        o["e"] = expr(X->getSubExpr());
    } else if (auto *X = dyn_cast<CXXNewExpr>(E)) {
      o["k"] = "new";
      o["array"] = X->isArray();
      o["alloc"] = type(X->getAllocatedType());
      if (X->isArray() && X->getArraySize() && *X->getArraySize())
        o["n"] = expr(*X->getArraySize());
      if (X->getInitializer())
        o["init"] = expr(X->getInitializer());
    } else if (auto *X = dyn_cast<CXXDeleteExpr>(E)) {
      o["k"] = "delete";
      o["array"] = X->isArrayForm();
      o["e"] = expr(X->getArgument());
    } else if (auto *X = dyn_cast<InitListExpr>(E)) {
      o["k"] = "initlist";
      json::Array a;
      for (auto *i : X->inits())
        a.push_back(expr(i));
      o["args"] = std::move(a);
    } else if (isa<CXXScalarValueInitExpr>(E) || isa<ImplicitValueInitExpr>(E)) {
      o["k"] = "zeroinit";
    } else if (auto *X = dyn_cast<CXXStdInitializerListExpr>(E)) {
      return expr(X->getSubExpr());
    } else if (auto *X = dyn_cast<UnresolvedMemberExpr>(E)) {
      o["k"] = "umember";
      o["n"] = X->getMemberName().getAsString();
      if (!X->isImplicitAccess())
        o["e"] = expr(X->getBase());
    } else if (auto *X = dyn_cast<CXXDependentScopeMemberExpr>(E)) {
      o["k"] = "dmember";
      o["n"] = X->getMember().getAsString();
      if (!X->isImplicitAccess())
        o["e"] = expr(X->getBase());
    } else if (auto *X = dyn_cast<UnresolvedLookupExpr>(E)) {
      o["k"] = "ulookup";
      o["n"] = X->getName().getAsString();
    } else if (auto *X = dyn_cast<DependentScopeDeclRefExpr>(E)) {
      o["k"] = "dref";
      o["n"] = X->getDeclName().getAsString();
    } else if (auto *X = dyn_cast<CXXUnresolvedConstructExpr>(E)) {
      o["k"] = "uctor";
      o["ty"] = X->getTypeAsWritten().getAsString(PP);
      json::Array a;
      for (auto *arg : X->arguments())
        a.push_back(expr(arg));
      o["args"] = std::move(a);
    } else if (auto *X = dyn_cast<PackExpansionExpr>(E)) {
      o["k"] = "packexp";
      o["e"] = expr(X->getPattern());
    } else if (auto *X = dyn_cast<CXXFoldExpr>(E)) {
      o["k"] = "fold";
      o["op"] = BinaryOperator::getOpcodeStr(X->getOperator()).str();
      if (X->getPattern())
        o["e"] = expr(X->getPattern());
    } else if (auto *X = dyn_cast<CXXNoexceptExpr>(E)) {
      o["k"] = "noexcept";
    } else if (auto *X = dyn_cast<StmtExpr>(E)) {
      o["k"] = "stmtexpr";
      o["body"] = stmt(X->getSubStmt());
    } else {
      o["k"] = "other";
      o["cls"] = E->getStmtClassName();
      o["kids"] = kids(E);
    }
    return std::move(o);
  }
  json::Value vardecl(const VarDecl *V) {
    json::Object v;
    v["d"] = id(V);
    v["n"] = V->getNameAsString();
    v["t"] = type(V->getType());
    v["loc"] = loc(V->getLocation());
    if (V->isConstexpr())
      v["cx"] = true;
    if (V->isStaticLocal())
      v["staticlocal"] = true;
    if (V->getTLSKind() != VarDecl::TLS_None)
      v["tls"] = true;
    if (V->getInit()) {
      v["init"] = expr(V->getInit());
      v["initstyle"] = (int)V->getInitStyle();
    }
    return std::move(v);
  }
  json::Value stmt(const Stmt *S) {
    if (!S)
      return nullptr;
    if (auto *E = dyn_cast<Expr>(S)) {
      json::Object o;
      o["s"] = "expr";
      o["e"] = expr(E);
      return std::move(o);
    }
    json::Object o;
    o["loc"] = loc(S->getBeginLoc());
    if (auto *X = dyn_cast<CompoundStmt>(S)) {
      o["s"] = "block";
      json::Array a;
      for (auto *c : X->body()) {
        if (isa<NullStmt>(c))
          continue;
        a.push_back(stmt(c));
      }
      o["b"] = std::move(a);
    } else if (auto *X = dyn_cast<DeclStmt>(S)) {
      o["s"] = "decl";
      json::Array a;
      for (auto *D : X->decls()) {
        if (auto *V = dyn_cast<VarDecl>(D))
          a.push_back(vardecl(V));
        else if (auto *SA = dyn_cast<StaticAssertDecl>(D)) {
          json::Object v;
          v["sa"] = true;
          bool failed = SA->isFailed();
          v["failed"] = failed;
          if (SA->getAssertExpr() && !SA->getAssertExpr()->isValueDependent()) {
            bool b;
            if (SA->getAssertExpr()->EvaluateAsBooleanCondition(b, C))
              v["val"] = b;
          } else
            v["depcond"] = true;
          a.push_back(std::move(v));
        }
      }
      o["v"] = std::move(a);
    } else if (auto *X = dyn_cast<IfStmt>(S)) {
      if (X->isConstexpr() && !X->getCond()->isValueDependent()) {
        json::Array a;
        if (X->getInit())
          a.push_back(stmt(X->getInit()));
        bool v = false;
        if (X->getCond()->EvaluateAsBooleanCondition(v, C)) {
          const Stmt *taken = v ? X->getThen() : X->getElse();
          o["cxfold"] = v;
          if (taken && !isa<NullStmt>(taken))
            a.push_back(stmt(taken));
          o["s"] = "block";
          o["b"] = std::move(a);
          return std::move(o);
        }
      }
      o["s"] = "if";
      if (X->isConstexpr())
        o["cx"] = true;
      if (X->getInit())
        o["init"] = stmt(X->getInit());
      if (X->getConditionVariable())
        o["condvar"] = vardecl(X->getConditionVariable());
      o["c"] = expr(X->getCond());
      o["then"] = stmt(X->getThen());
      if (X->getElse())
        o["else"] = stmt(X->getElse());
    } else if (auto *X = dyn_cast<ForStmt>(S)) {
      o["s"] = "for";
      if (X->getInit())
        o["init"] = stmt(X->getInit());
      if (X->getCond())
        o["c"] = expr(X->getCond());
      if (X->getInc())
        o["inc"] = expr(X->getInc());
      o["body"] = stmt(X->getBody());
    } else if (auto *X = dyn_cast<CXXForRangeStmt>(S)) {
      o["s"] = "forrange";
      if (X->getLoopVariable()) {
        o["var"] = id(X->getLoopVariable());
        o["varn"] = X->getLoopVariable()->getNameAsString();
        o["vart"] = type(X->getLoopVariable()->getType());
      }
      o["range"] = expr(X->getRangeInit());
      o["body"] = stmt(X->getBody());
    } else if (auto *X = dyn_cast<WhileStmt>(S)) {
      o["s"] = "while";
      o["c"] = expr(X->getCond());
      o["body"] = stmt(X->getBody());
    } else if (auto *X = dyn_cast<DoStmt>(S)) {
      o["s"] = "do";
      o["c"] = expr(X->getCond());
      o["body"] = stmt(X->getBody());
    } else if (auto *X = dyn_cast<ReturnStmt>(S)) {
      o["s"] = "ret";
      if (X->getRetValue())
        o["e"] = expr(X->getRetValue());
    } else if (isa<BreakStmt>(S))
      o["s"] = "break";
    else if (isa<ContinueStmt>(S))
      o["s"] = "continue";
    else if (isa<NullStmt>(S))
      o["s"] = "null";
    else if (auto *X = dyn_cast<CXXTryStmt>(S)) {
      o["s"] = "try";
      o["body"] = stmt(X->getTryBlock());
      json::Array a;
      for (unsigned i = 0; i < X->getNumHandlers(); i++)
        a.push_back(stmt(X->getHandler(i)->getHandlerBlock()));
      o["handlers"] = std::move(a);
    } else if (auto *X = dyn_cast<SwitchStmt>(S)) {
      o["s"] = "switch";
      o["c"] = expr(X->getCond());
      o["body"] = stmt(X->getBody());
    } else if (auto *X = dyn_cast<CaseStmt>(S)) {
      o["s"] = "case";
      o["c"] = expr(X->getLHS());
      o["body"] = stmt(X->getSubStmt());
    } else if (auto *X = dyn_cast<DefaultStmt>(S)) {
      o["s"] = "default";
      o["body"] = stmt(X->getSubStmt());
    } else if (auto *X = dyn_cast<AttributedStmt>(S)) {
      return stmt(X->getSubStmt());
    } else {
      o["s"] = "other";
      o["cls"] = S->getStmtClassName();
    }
    return std::move(o);
  }
};

class V : public RecursiveASTVisitor<V> {
  Dumper &D;
  json::Array &fns, &recs, &vars;
  std::set<const Decl *> seenF, seenR, seenV;

public:
  V(Dumper &D, json::Array &f, json::Array &r, json::Array &v)
      : D(D), fns(f), recs(r), vars(v) {}
  bool shouldVisitTemplateInstantiations() const { return true; }
  bool shouldVisitImplicitCode() const { return false; }

  json::Array targs(const TemplateArgumentList *TA) {
    json::Array a;
    if (!TA)
      return a;
    for (auto &A : TA->asArray()) {
      std::string s;
      llvm::raw_string_ostream so(s);
      A.print(D.PP, so, true);
      a.push_back(so.str());
    }
    return a;
  }
  json::Array targtypes(const TemplateArgumentList *TA) {
    json::Array a;
    if (!TA)
      return a;
    for (auto &A : TA->asArray()) {
      if (A.getKind() == TemplateArgument::Type)
        a.push_back(D.type(A.getAsType()));
      else if (A.getKind() == TemplateArgument::Integral) {
        llvm::SmallString<40> s;
        A.getAsIntegral().toString(s, 10);
        json::Object o;
        o["int"] = s.str().str();
        a.push_back(std::move(o));
      } else if (A.getKind() == TemplateArgument::Pack) {
        json::Array p;
        for (auto &B : A.pack_elements())
          if (B.getKind() == TemplateArgument::Type)
            p.push_back(D.type(B.getAsType()));
          else
            p.push_back(nullptr);
        json::Object o;
        o["pack"] = std::move(p);
        a.push_back(std::move(o));
      } else
        a.push_back(nullptr);
    }
    return a;
  }

  bool VisitFunctionDecl(FunctionDecl *FD) {
    if (!FD->doesThisDeclarationHaveABody() && !FD->isDeleted() &&
        !FD->isDefaulted())
      return true;
    if (!D.inRoots(FD->getLocation()))
      return true;
    if (!seenF.insert(FD).second)
      return true;
    json::Object o;
    o["id"] = D.id(FD);
    o["n"] = FD->getQualifiedNameAsString();
    o["sn"] = FD->getNameAsString();
    o["loc"] = D.loc(FD->getLocation());
    o["dep"] = FD->isDependentContext();
    o["inst"] = FD->isTemplateInstantiation();
    if (auto *P = FD->getTemplateInstantiationPattern()) {
      o["pat"] = D.id(P);
      o["patloc"] = D.loc(P->getLocation());
    }
    std::string full;
    llvm::raw_string_ostream os(full);
    FD->getNameForDiagnostic(os, D.PP, true);
    o["full"] = os.str();
    if (auto *M = dyn_cast<CXXMethodDecl>(FD)) {
      o["cls"] = D.type(D.C.getRecordType(M->getParent()));
      o["access"] = (int)M->getAccess();
      o["static"] = M->isStatic();
      o["rid"] = D.id(M->getParent());
      o["constm"] = M->isConst();
      if (auto *CTS = dyn_cast<ClassTemplateSpecializationDecl>(M->getParent())) {
        o["ctargs"] = targs(&CTS->getTemplateArgs());
        o["ctargt"] = targtypes(&CTS->getTemplateArgs());
      }
      if (M->getParent()->isLambda())
        o["lambda"] = true;
    }
    if (isa<CXXConstructorDecl>(FD))
      o["kind"] = "ctor";
    else if (isa<CXXDestructorDecl>(FD))
      o["kind"] = "dtor";
    else if (auto *CV = dyn_cast<CXXConversionDecl>(FD)) {
      o["kind"] = "conv";
      o["convto"] = D.type(CV->getConversionType());
    }
    if (FD->isDeleted())
      o["deleted"] = true;
    if (FD->isDefaulted())
      o["defaulted"] = true;
    if (FD->isNoReturn())
      o["noret"] = true;
    if (FD->isOverloadedOperator())
      o["oo"] = getOperatorSpelling(FD->getOverloadedOperator());
    if (auto *TA = FD->getTemplateSpecializationArgs()) {
      o["targs"] = targs(TA);
      o["targt"] = targtypes(TA);
    }
    json::Array ps;
    for (auto *P : FD->parameters()) {
      json::Object p;
      p["d"] = D.id(P);
      p["n"] = P->getNameAsString();
      p["t"] = D.type(P->getType());
      ps.push_back(std::move(p));
    }
    o["params"] = std::move(ps);
    o["ret"] = D.type(FD->getReturnType());
    if (auto *CD = dyn_cast<CXXConstructorDecl>(FD)) {
      json::Array a;
      for (auto *I : CD->inits()) {
        json::Object i;
        i["written"] = I->isWritten();
        if (I->getMember()) {
          i["d"] = D.id(I->getMember());
          i["n"] = I->getMember()->getNameAsString();
        } else if (I->isBaseInitializer())
          i["base"] = true;
        i["e"] = D.expr(I->getInit());
        a.push_back(std::move(i));
      }
      o["inits"] = std::move(a);
    }
    if (FD->doesThisDeclarationHaveABody())
      o["body"] = D.stmt(FD->getBody());
    fns.push_back(std::move(o));
    return true;
  }

  bool VisitCXXRecordDecl(CXXRecordDecl *RD) {
    if (!RD->isThisDeclarationADefinition() || !D.inRoots(RD->getLocation()))
      return true;
    if (RD->isLambda())
      return true;
    if (!seenR.insert(RD).second)
      return true;
    json::Object o;
    o["id"] = D.id(RD);
    o["n"] = RD->getQualifiedNameAsString();
    o["loc"] = D.loc(RD->getLocation());
    o["dep"] = RD->isDependentContext();
    o["t"] = D.type(D.C.getRecordType(RD));
    if (auto *CTS = dyn_cast<ClassTemplateSpecializationDecl>(RD)) {
      o["targs"] = targs(&CTS->getTemplateArgs());
      o["targt"] = targtypes(&CTS->getTemplateArgs());
      o["explicit_spec"] = CTS->isExplicitSpecialization();
    }
    if (isa<ClassTemplatePartialSpecializationDecl>(RD))
      o["partial"] = true;
    json::Array fs;
    for (auto *F : RD->fields()) {
      json::Object f;
      f["d"] = D.id(F);
      f["n"] = F->getNameAsString();
      f["t"] = D.type(F->getType());
      f["access"] = (int)F->getAccess();
      f["loc"] = D.loc(F->getLocation());
      if (F->hasInClassInitializer() && F->getInClassInitializer())
        f["init"] = D.expr(F->getInClassInitializer());
      fs.push_back(std::move(f));
    }
    bool layoutOk = !RD->isDependentContext() && !RD->isInvalidDecl() &&
                    RD->isCompleteDefinition();
    if (layoutOk)
      for (auto *F : RD->fields())
        if (Dumper::weird(F->getType()) || F->getType()->isIncompleteType())
          layoutOk = false;
    if (layoutOk) {
      auto &L = D.C.getASTRecordLayout(RD);
      o["size"] = (int64_t)L.getSize().getQuantity();
      o["align"] = (int64_t)L.getAlignment().getQuantity();
      unsigned i = 0;
      for (auto *F : RD->fields()) {
        (void)F;
        if (auto *fo = fs[i].getAsObject())
          (*fo)["off"] = (int64_t)(L.getFieldOffset(i) / 8);
        i++;
      }
      o["trivcopy"] = RD->isTriviallyCopyable();
      o["trivdtor"] = RD->hasTrivialDestructor();
      o["stdlayout"] = RD->isStandardLayout();
    }
    o["fields"] = std::move(fs);
    json::Array bases;
    for (auto &B : RD->bases()) {
      json::Object b;
      b["t"] = D.type(B.getType());
      b["access"] = (int)B.getAccessSpecifier();
      bases.push_back(std::move(b));
    }
    o["bases"] = std::move(bases);
    // methods (declared, incl. templates) with access
    json::Array ms;
    auto addMethod = [&](const FunctionDecl *FD, bool tmpl, AccessSpecifier AS) {
      json::Object m;
      m["id"] = D.id(FD);
      m["n"] = FD->getNameAsString();
      m["access"] = (int)AS;
      m["tmpl"] = tmpl;
      m["ret"] = D.type(FD->getReturnType());
      m["loc"] = D.loc(FD->getLocation());
      if (FD->isDeleted())
        m["deleted"] = true;
      if (FD->isDefaulted())
        m["defaulted"] = true;
      if (auto *M = dyn_cast<CXXMethodDecl>(FD)) {
        m["static"] = M->isStatic();
        m["constm"] = M->isConst();
      }
      if (isa<CXXConstructorDecl>(FD)) {
        m["kind"] = "ctor";
        auto *CD = cast<CXXConstructorDecl>(FD);
        if (CD->isCopyConstructor())
          m["copy"] = true;
        if (CD->isMoveConstructor())
          m["move"] = true;
        if (CD->isExplicit())
          m["explicit"] = true;
      } else if (isa<CXXDestructorDecl>(FD))
        m["kind"] = "dtor";
      else if (auto *CV = dyn_cast<CXXConversionDecl>(FD)) {
        m["kind"] = "conv";
        m["convto"] = D.type(CV->getConversionType());
        if (CV->isExplicit())
          m["explicit"] = true;
      } else if (auto *M = dyn_cast<CXXMethodDecl>(FD)) {
        if (M->isCopyAssignmentOperator())
          m["copyassign"] = true;
        if (M->isMoveAssignmentOperator())
          m["moveassign"] = true;
      }
      if (FD->isOverloadedOperator())
        m["oo"] = getOperatorSpelling(FD->getOverloadedOperator());
      json::Array ps;
      for (auto *P : FD->parameters())
        ps.push_back(D.type(P->getType()));
      m["params"] = std::move(ps);
      ms.push_back(std::move(m));
    };
    json::Array svars;
    json::Array friends;
    for (auto *Dd : RD->decls()) {
      if (Dd->isImplicit())
        continue;
      if (auto *FT = dyn_cast<FunctionTemplateDecl>(Dd))
        addMethod(FT->getTemplatedDecl(), true, FT->getAccess());
      else if (auto *FD = dyn_cast<FunctionDecl>(Dd))
        addMethod(FD, false, FD->getAccess());
      else if (auto *VD = dyn_cast<VarDecl>(Dd)) {
        json::Object v;
        v["d"] = D.id(VD);
        v["n"] = VD->getNameAsString();
        v["t"] = D.type(VD->getType());
        v["access"] = (int)VD->getAccess();
        v["tls"] = VD->getTLSKind() != VarDecl::TLS_None;
        v["cx"] = VD->isConstexpr();
        svars.push_back(std::move(v));
      } else if (auto *FR = dyn_cast<FriendDecl>(Dd)) {
        json::Object f;
        if (auto *ND = FR->getFriendDecl()) {
          f["n"] = ND->getQualifiedNameAsString();
          f["kind"] = ND->getDeclKindName();
        } else if (auto *TSI = FR->getFriendType())
          f["n"] = TSI->getType().getAsString(D.PP);
        friends.push_back(std::move(f));
      } else if (auto *FTD = dyn_cast<FriendTemplateDecl>(Dd)) {
        json::Object f;
        if (auto *ND = FTD->getFriendDecl())
          f["n"] = ND->getQualifiedNameAsString();
        friends.push_back(std::move(f));
      } else if (auto *UD = dyn_cast<UsingDecl>(Dd)) {
        json::Object m;
        m["using"] = UD->getQualifiedNameAsString();
        m["access"] = (int)UD->getAccess();
        ms.push_back(std::move(m));
      }
    }
    o["methods"] = std::move(ms);
    o["svars"] = std::move(svars);
    o["friends"] = std::move(friends);
    if (!RD->isDependentContext() && RD->isCompleteDefinition() &&
        !RD->isInvalidDecl()) {
      o["has_copy_ctor_deleted"] = RD->defaultedCopyConstructorIsDeleted();
    }
    recs.push_back(std::move(o));
    return true;
  }

  bool VisitVarDecl(VarDecl *VD) {
    if (!VD->hasGlobalStorage() || isa<ParmVarDecl>(VD) ||
        !D.inRoots(VD->getLocation()))
      return true;
    if (isa<VarTemplateSpecializationDecl>(VD))
      return true;
    if (VD->getDescribedVarTemplate())
      return true;
    if (!seenV.insert(VD).second)
      return true;
    json::Object o;
    o["d"] = D.id(VD);
    o["n"] = VD->getQualifiedNameAsString();
    o["sn"] = VD->getNameAsString();
    o["loc"] = D.loc(VD->getLocation());
    o["t"] = D.type(VD->getType());
    o["tls"] = VD->getTLSKind() != VarDecl::TLS_None;
    o["cx"] = VD->isConstexpr();
    o["dep"] = VD->getDeclContext()->isDependentContext();
    o["def"] = (int)VD->isThisDeclarationADefinition();
    o["staticlocal"] = VD->isStaticLocal();
    o["member"] = VD->isStaticDataMember();
    if (auto *RD = dyn_cast<CXXRecordDecl>(VD->getDeclContext())) {
      o["rid"] = D.id(RD);
      o["rn"] = RD->getQualifiedNameAsString();
    }
    vars.push_back(std::move(o));
    return true;
  }
};

class Cons : public ASTConsumer {
  Opts O;

public:
  Cons(Opts o) : O(std::move(o)) {}
  void HandleTranslationUnit(ASTContext &Ctx) override {
    if (Ctx.getDiagnostics().hasErrorOccurred()) {
      llvm::errs() << "factdump: TU has errors, no facts written\n";
      return;
    }
    Dumper D(Ctx, O);
    json::Array fns, recs, vars;
    V v(D, fns, recs, vars);
    v.TraverseDecl(Ctx.getTranslationUnitDecl());
    json::Object root;
    root["functions"] = std::move(fns);
    root["records"] = std::move(recs);
    root["statics"] = std::move(vars);
    root["types"] = std::move(D.typeTab);
    std::error_code EC;
    llvm::raw_fd_ostream os(O.out, EC);
    if (EC) {
      llvm::errs() << "factdump: cannot write " << O.out << "\n";
      return;
    }
    os << json::Value(std::move(root));
  }
};

class Act : public PluginASTAction {
  Opts O;

protected:
  std::unique_ptr<ASTConsumer> CreateASTConsumer(CompilerInstance &,
                                                 llvm::StringRef) override {
    return std::make_unique<Cons>(O);
  }
  bool ParseArgs(const CompilerInstance &,
                 const std::vector<std::string> &a) override {
    for (auto &s : a) {
      if (StringRef(s).startswith("out="))
        O.out = s.substr(4);
      else if (StringRef(s).startswith("root=")) {
        O.roots.clear();
        O.roots.push_back(s.substr(5));
      } else if (StringRef(s).startswith("also="))
        O.roots.push_back(s.substr(5));
    }
    return true;
  }
  ActionType getActionType() override { return AddAfterMainAction; }
};
} // namespace
static FrontendPluginRegistry::Add<Act> X("factdump", "rlbox fact extractor");
