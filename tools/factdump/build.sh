#!/bin/sh
# Build the factdump clang plugin (offline; needs only llvm-14 dev files in the image)
set -e
HERE=$(cd "$(dirname "$0")" && pwd)
OUT=${1:-$HERE/../../build}
mkdir -p "$OUT"
if [ "$OUT/factdump.so" -nt "$HERE/factdump.cc" ]; then exit 0; fi
clang++ $(llvm-config-14 --cxxflags) -fno-rtti -fPIC -shared -O1 \
  "$HERE/factdump.cc" -o "$OUT/factdump.so.tmp" \
  /usr/lib/llvm-14/lib/libclang-cpp.so.14 /usr/lib/llvm-14/lib/libLLVM-14.so
mv "$OUT/factdump.so.tmp" "$OUT/factdump.so"
