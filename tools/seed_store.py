#!/usr/bin/env python3
"""usage: tools/seed_store.py <seed-id> <worktree> <property> <demo files comma-separated> <json meta fields as k=v ...>"""
import json, os, shutil, subprocess, sys
sid, wt, prop, demos = sys.argv[1:5]
d = os.path.join('/verif/seeded', sid)
os.makedirs(d, exist_ok=True)
patch = subprocess.check_output(['git', '-C', wt, 'diff', '--', 'code/include']).decode()
if not patch.strip():
    patch = open(os.path.join(wt, 'patch.diff')).read()
open(os.path.join(d, 'patch.diff'), 'w').write(patch)
for f in demos.split(','):
    if f:
        shutil.copy(os.path.join(wt, f), os.path.join(d, os.path.basename(f)))
meta = {'property': prop}
for kv in sys.argv[5:]:
    k, v = kv.split('=', 1)
    meta[k] = v
json.dump(meta, open(os.path.join(d, 'meta.json'), 'w'), indent=1)
print('stored', d, os.listdir(d))
