#!/bin/sh
# usage: tools/seed_verify.sh <worktree> "<demo build+run command>"
# Confirms, in the sub-agent's scratch worktree: suite green with the change; demo fails with it and passes without it.
WT="$1"; CMD="$2"
cd "$WT" || exit 3
git diff -- code/include > /tmp/seed_patch.$$ ; test -s /tmp/seed_patch.$$ || { echo "no change applied"; exit 3; }
cmake --build _build -j16 >/dev/null 2>&1; ctest --test-dir _build -j8 2>&1 | grep "tests passed"
echo "--- demo WITH change"; sh -c "$CMD" 2>&1 | tail -4; echo "rc=$?"
git checkout -- code/include
echo "--- demo WITHOUT change"; sh -c "$CMD" 2>&1 | tail -4; echo "rc=$?"
git apply /tmp/seed_patch.$$; rm -f /tmp/seed_patch.$$
