#!/usr/bin/env python3
"""Generate /verif/MANIFEST.json from the table below (keeps the manifest valid and in one place)."""
import json, os
HERE = os.path.dirname(os.path.dirname(os.path.abspath(__file__)))
props = [json.loads(l) for l in open(os.path.join(HERE, "properties.jsonl"))]
ids = [p["id"] for p in props]

CHECKS = {
 "C06": dict(level="other", technique="exact interval-set evaluation of the abort guards in every instantiated integer conversion (custom checker over clang AST facts)",
   text="For each of the 225 ordered integer type pairs the checker computes, exactly and for all source values, the set accepted by the abort checks of the instantiated "
        "convert_type_fundamental and proves it equals the set of representable values and that the store is the identity; array conversions are checked structurally "
        "(bulk copy only between identical representations). Every obligation is discharged on the repaired tree; the level is reported as 'other' because routing of every "
        "boundary crossing through this routine is decided by separate structural rules rather than a machine-checked proof. Those route rules (R-C06-route) demand, for stores into sandbox memory, call arguments, callback arguments and values returned "
        "to the sandbox, that every narrowing / sign-changing conversion on the value's way was performed by the checked routine (per-path record of which function performed each conversion); R-C06-map fixes the type map by compiler-judged equalities.",
   note="trusted: clang 14 template instantiation + constant evaluation, the LP64 host model, the factdump extractor and the interval evaluator (unit-tested); floating point conversions are by design left to the language", ref="3/C06"),
 "C10": dict(level="other", technique="path-sensitive must-pass-through analysis: every byte sink dominated by non-null + same-sandbox range check on the same start and extent (custom checker over clang AST facts)",
   text="For every instantiation of the nine bulk entry points (memset/memcpy/memcmp, range/string/buffer-address verifiers, unverified_safe_pointer_because, grant/deny) and every structured path, "
        "each byte sink (libc byte op, strlen, std::string(ptr,len), element loop, raw pointer hand-back, backend grant/deny) must be dominated by abort checks start != 0 and "
        "is_in_same_sandbox(start, start+n-1) on the same start value and the same extent n that the sink uses, with n proven non-wrapping. Decides the structural necessary condition for all "
        "start addresses and extents at once; it does not execute anything and does not decide the backend predicate itself.",
   note="trusted: backend contract for impl_is_in_same_sandbox/impl_get_total_memory; clang front end; extractor and engine. strlen on sandbox memory is an accepted idiom (assumption recorded in evidence).", ref="3/C10"),
 "C05": dict(level="other", technique="path-sensitive structural analysis of every pointer instantiation of + - [] and derived operators; stride constants compared with an independent ABI model (custom checker over clang AST facts)",
   text="For every pointer instantiation (11 pointee types x index types x tainted/tainted_volatile, foreign-ABI and host-ABI backends) the produced address must be the value covered by dominating abort checks "
        "base != null and is_in_same_sandbox(base, target), with target - base == +/- s*index where s is the guest size of the pointee computed by the checker's own ABI model; op=, ++/-- are checked to be wired to the "
        "matching binary operator. Decides the structural necessary conditions for all bases and indices; the index*stride wrap is a recorded known finding.",
   note="trusted: backend contract for impl_is_in_same_sandbox; clang front end; ABI model in sa/abi.py (natural alignment, ILP32-like guest)", ref="3/C05"),
 "C16": dict(level="other", technique="structural operator-wiring analysis over instantiated operator bodies (same opcode, operand order and operand types as the plain expression)",
   text="For every instantiated member/free/unary/compound/increment operator on numeric wrappers (tainted, tainted_volatile, plain on either side) the returned wrapper's value term must be exactly "
        "value(lhs) OP value(rhs) with OP the operator being defined; compound and ++/-- must be defined through the matching binary operator and return the right object. "
        "Equality of opcode, operand order and operand types implies equality of value for all inputs, so no values are sampled.",
   note="trusted: clang's resolution of built-in operators and implicit conversions; result *types* are pinned by the witness corpus (W-C16-types) when enabled", ref="3/C16"),
 "C13": dict(level="other", technique="ownership typestate rules over the path-sensitive event model (field-complete move, release-before-overwrite, locked duplicate test, non-null refusal)",
   text="Decides the per-operation steps from which the one-owner invariant follows by induction: sandbox_callback is non-copyable with a private registering constructor; move transfers and resets every field of the record; "
        "move assignment, destructor and unregister() release exactly when a registration is held; register_callback tests and inserts one key under one lock after the CREATED check and builds the owner from the backend result; "
        "unregister_callback swallows when not CREATED and otherwise erases exactly the key found; the bundled backends never return a null entry point. A path of the move assignment that transfers nothing must have tested object identity; the registered-key set is written only by register/unregister (who-may-write over all instantiated functions, helpers accepted). "
        "It does NOT explore register/unregister histories (that would be model checking).",
   note="trusted: std::vector/std::find semantics; clang front end; engine. Third-party backends returning representation 0 are outside the refusal rule.", ref="3/C13"),
 "C15": dict(level="other", technique="structural analysis of the token-table scan (freshness control dependence, bounds, cursor update) and ownership typestate of app_pointer",
   text="Decides: token 0 reserved and cursor starting at 1; every returned token is control-dependent on find(token)==end() for the same token, bounded by the limit or the cursor, and the cursor moves past it; no returning fall-through; "
        "existence abort checks in remove/lookup; get_app_pointer uses total_memory-1, checks the fabricated address and builds the owner from the same token; app_pointer moves/releases like a unique owner. "
        "The complete reachable state space of the table is not enumerated (model-checking question).",
   note="trusted: std::map semantics; clang front end; engine", ref="3/C15"),
 "C11": dict(level="other", technique="routing/identity analysis over the path-sensitive event model (one backend call per path, one-to-one argument provenance, cache filler uniqueness)",
   text="Decides routing and identity, not values: on every path of every instantiated invocation (0..12 parameters, all wrapper forms, by-value structs, by-name and static modes, four backends) the backend is called exactly once "
        "with the func_ptr parameter; backend argument i depends on parameter i and on no other; the result is converted from the backend's return value with this sandbox instance; lookup caches are per-instance, keyed by the looked-up name, "
        "written under the unique guard, and each cache has a single backend filler; the bundled backends call *func_ptr once with all parameters. Value faithfulness per argument kind is C04/C06/C08.",
   note="trusted: clang front end; engine; dynamic loader semantics; what the guest function observes at run time is outside static reach", ref="3/C11"),
 "C12": dict(level="other", technique="index/identity agreement analysis of the callback dispatch chain over the path-sensitive event model (register slot = trampoline slot = lookup slot; context save/restore)",
   text="Decides every step of the dispatch chain for all instantiated signatures, both bundled backends and both TLS configurations: the interceptor calls exactly the key the backend reports, once, with the executing sandbox "
        "and one-to-one converted arguments (pointers relative to that sandbox) and converts the result back; impl_register_callback stores key and interceptor at the index of the trampoline it returns; trampoline<N> records N and "
        "calls callbacks[N] of the per-thread sandbox; the lookup reads callback_unique_keys[last_callback_invoked]; unregister clears both arrays at the matching index; impl_invoke installs and restores the per-thread sandbox; callback results and arguments cross the ABI only through the checked conversion routine. Run over a generated family of 32 callback signatures. "
        "Dispatch after arbitrary histories/nesting is a state-space property and is not enumerated.",
   note="trusted: clang front end; engine. Value faithfulness per kind is C04/C06/C08.", ref="3/C12"),
 "C14": dict(level="other", technique="typestate/ordering rules over create_sandbox/destroy_sandbox paths plus a who-may-write table for the status word and the live list",
   text="Decides: the status word is written only by create/destroy; the four status values form the cycle via compare-exchange-with-abort; CREATED is stored and the sandbox published only after (successful) backend creation, under the unique guard; "
        "removal is existence-checked, under the guard, before backend destruction; every backend call in malloc/free/register/unregister is dominated by status == CREATED with the prescribed not-created outcome. "
        "Containers surviving destroy (stale keys / cached symbols) are recorded known findings. Operation sequences are not enumerated.",
   note="trusted: std::atomic semantics; clang front end; engine", ref="3/C14"),
 "C18": dict(level="other", technique="storage-class table of all statics + lock-set analysis of every access to guarded shared state",
   text="Computes the list of all variables with static storage in the headers for every backend/TLS configuration and requires each to be immutable, thread_local, a lock or guarded by a named lock; "
        "every access to the live-sandbox list must lie inside a live guard (mutations under the unique guard); the status word must be atomic; the backends' per-thread context must be thread_local. "
        "This is the classic lock-set sufficient condition for race freedom of the state shared between instances; schedules are not explored.",
   note="assumes per-instance state is confined to its thread (the property's premise); third-party backends out of scope", ref="3/C18"),
 "C19": dict(level="other", technique="bracketing/RAII analysis on the hooks+timing configuration: destructors of scope guards are executed symbolically at scope exit",
   text="For every instantiated invocation and interceptor in the configuration that defines both hooks and timing: exactly one opening and one closing notification bracket the crossing on every path with the identity "
        "(kind, name, pointer, transition state); the closing notification and the single timing record are issued from scope-guard destructors whose guards are constructed before the first statement that can abort; "
        "scope_exit runs iff armed, moves disarm the source, copies are deleted. The nesting tree is balanced because each crossing brackets itself.",
   note="trusted: C++ unwinding semantics for exceptions; clang front end; engine", ref="3/C19"),
 "C04": dict(level="other", technique="null short-circuit domination, who-may-call table, template-argument/callee agreement and example-address provenance over the path-sensitive event model",
   text="Decides the structural part for every instantiation: the four translation entry points consult the backend only for non-zero inputs and return 0/null otherwise; the backend translations are called from nowhere else; "
        "every pointer instantiation of convert_type_non_class (scalars and arrays, all Direction x Context values) calls the translation its template arguments name, on `from`, into `to`, visiting every array index once; every "
        "example address is the address of the tainted_volatile cell/object involved; nullptr stores 0; find_sandbox_from_example returns the element whose memory contains the example; the pointer's static type reaches the backend translation unchanged (function vs data pointers); bundled backends translate by identity. "
        "Round-trip arithmetic of third-party backends is their contract.",
   note="trusted: backend contract (translation inverse on in-sandbox addresses); clang front end; engine", ref="3/C04"),
 "C07": dict(level="other", technique="record-layout facts against an independent ABI model + footprint rule on every typed access whose address derives from a sandbox pointer",
   text="Decides: tainted_volatile<T> storage is volatile and has exactly the guest size/alignment for every instantiated T; in every public entry point (inlined) no typed load/store dereferences a raw sandbox pointer with an application "
        "type whose size differs under the sandbox ABI (all accesses go through guest-typed storage); get_raw_value/operator= touch only their own storage; bulk loads range-check exactly the bytes they decode (R-C07-range, shared with C10). Decided under the foreign-ABI model where widths differ.",
   note="trusted: the compiler emits sizeof(type) bytes for a typed volatile access; ABI model in sa/abi.py", ref="3/C07"),
 "C08": dict(level="other", technique="record-layout facts against an independent ABI calculator + field-routing analysis of the six generated converters",
   text="For every registered struct and backend: guest struct and tainted_volatile<S> have the size, alignment and field offsets the checker's own calculator derives from S's field list; tainted<S> has S's host layout; in each "
        "generated converter every leaf field (nested structs expanded, arrays per index) is written exactly once from the same-named field of the single source object on every path; pointer fields are translated relative to the sandbox-memory image (R-C08-pointers), array fields element-wise over every "
        "dimension (R-C08-arrays), integer fields accept exactly the representable values (R-C08-values) - the last three share their analyses with C04/C06. Run over a generated family of registered structs covering every field kind.",
   note="struct family: 3 hand-written + 10 (quick) / 48 (thorough) generated structs (tools/gen_structs.py), every field kind of the quantifier with a floor on the set of kinds analysed; natural alignment; value enumeration per field is replaced by the exact accepted-set computation", ref="3/C08"),
 "C09": dict(level="other", technique="snapshot/single-fetch shape analysis: classification of the verifier's argument and counting of sandbox reads per path",
   text="For every copy_and_verify variant and element type: the verifier is called once with a by-value scalar or a local application-memory object; no sandbox read follows; scalar variants fetch the cell once; "
        "range/string variants use one length value for range check, allocation, loop bound, terminator and string constructor with at most one strlen; the char buffer is force-terminated. "
        "This is the structural necessary condition for the absence of a check/use window; schedules are not explored.",
   note="trusted: clang front end; engine; verifier bodies are the application's", ref="3/C09"),
 "C17": dict(level="proof", technique="exact interval-set evaluation of the bounds guard per (array type, index type, wrapper) instantiation + element designation analysis",
   text="For every instantiated combination (5 array shapes incl. 2-D and pointer arrays x 10 index types x plain/tainted index x tainted/tainted_volatile) the evaluator proves, for all index values, that the abort check accepts exactly "
        "[0,N-1] (including the unsigned cast and values aliasing after truncation), and the engine shows the element designated is storage[index] of the wrapper's own host/guest std::array with the checked index. Every obligation is discharged.",
   note="trusted base listed in evidence: clang constant evaluation/implicit conversions, interval evaluator (exact for this expression class; anything else is INCONCLUSIVE), std::array semantics", ref="3/C17"),
 "C20": dict(level="other", technique="record-layout/triviality facts + bitwise-copy and cast-kind analysis of the opaque conversions and sandbox casts",
   text="Decides: tainted_opaque<T> is a single T, layout-identical to tainted<T>, both trivially copyable/destructible; to_opaque/from_opaque return a bitwise copy typed as the sibling with identical T and sandbox type; "
        "each sandbox_X_cast performs exactly one conversion of the kind X_cast permits (clang cast kind, not spelling) on the argument's value and wraps it as tainted<T_Lhs,T_Sbx>; integer sandbox_static_cast is judged by value "
        "over a 10x10 type matrix (a chain of conversions must equal the single static_cast for every source value).",
   note="bit patterns are not enumerated: a bitwise copy between layout-identical trivially-copyable types preserves every value", ref="3/C20"),
 "C01": dict(level="exploration", technique="compiler-judged witness corpus (accept/reject + result-type oracle) exhaustive over a generated expression/statement grammar, plus a public-surface who-may-return table",
   text="Every program of a generated grammar (wrapper kind x type x every binary operator with wrapped/plain/nullptr operands on either side, unary/postfix operators, [], ->, comma, ?:, casts, and all conversion contexts) is compiled "
        "against the real headers; the oracle is independent of RLBox's implementation: IF it compiles its type must still be wrapped (bool only for tainted-pointer null tests; hint for comparisons touching sandbox memory), and forbidden "
        "contexts must be rejected. The run is exhaustive over the grammar (3.7k programs quick, ~20k thorough with g++ as second judge). A who-may-return table over all instantiated wrapper members pins the named unwrappers.",
   note="programs outside the grammar are not covered; trusted: clang 14 (and g++ 12 in the thorough tier) as judges", ref="3/C01"),
 "C02": dict(level="exploration", technique="compiler-judged must-reject/must-accept corpus over entry shapes + dominating-check analysis of the two run-time checked entry points",
   text="Every shape of the statement (raw pointers, raw function pointers, C and std::array pointer arrays under the foreign and the host ABI, foreign-sandbox wrappers into tainted/tainted_volatile/call arguments/callback results; malformed callback signatures; function-pointer type agreement) "
        "is compiled and must be rejected, with must-accept controls for each well-formed shape; assign_raw_pointer (both forms) and UNSAFE_accept_pointer are shown to store only a value dominated by the membership abort check of the same value on the same sandbox.",
   note="trusted: clang 14 as judge; backend membership predicate exact", ref="3/C02"),
 "C03": dict(level="other", technique="inductive producer discipline: every site that creates a tainted object pointer is classified by a justification idiom over the path-sensitive event model",
   text="Enumerates, in every analysed entry function (all public members and free functions, inlined) and on every path, each store of an object-pointer value into a tainted wrapper (or tainted struct field) and requires one of the "
        "accepted derivations: null, backend translation/grant, dominating membership abort check, dominating base != null and same-sandbox(base, value) with a justified base, address inside a tainted_volatile, or copy of an existing tainted pointer; "
        "the lvalue-manufacturing operators must null-check; malloc_in_sandbox must check start and last element. Chains of operations are covered by induction over producers; the 2^32 representations are the backend translation's contract. "
        "The missing null check in operator*/operator-> is a recorded known finding.",
   note="trusted: backend contract (translation yields in-region addresses; predicates exact); clang front end; engine", ref="3/C03"),
}
NA_REASON = "check under construction in this revision (see DESIGN.md section 3 for the planned static rules); not claimed yet"

m = {
 "version": 1,
 "setup_cmd": "sh tools/factdump/build.sh",
 "hooks": {"guard": "ALLENABY_RLBOX_VERIF", "enable": "no hooks are needed: the analysis reads /repo's headers as they are (no instrumentation, no annotations)",
           "baseline_off_cmd": "cmake --build /repo/_build -j16 && ctest --test-dir /repo/_build -j8 --timeout 900",
           "source_commits": [], "add_only": True},
 "engines": [
  {"name": "factdump", "path": "tools/factdump/factdump.cc", "serves_properties": ids, "kind_free_text": "clang-14 frontend plugin: resolved-program fact extractor (template patterns + instantiations, layouts, constants)"},
  {"name": "sa", "path": "sa/", "serves_properties": ids, "kind_free_text": "Python rule engine: path-sensitive structural evaluator (inliner, abort-check recognition, must-pass-through queries), exact interval-set evaluator, who-may tables, compiler-judged witness corpora"},
 ],
 "checks": [], "not_applicable": [],
 "notes": "Static analysis only: no RLBox code is executed by any registered command. Exit 2 = ANALYSIS-BROKEN (anchor vanished / driver no longer compiles), never reported as pass or violation.",
}
for pid in ids:
    if pid in CHECKS:
        c = CHECKS[pid]
        m["checks"].append({
          "property_id": pid, "quick_cmd": "./check %s --tier quick" % pid, "thorough_cmd": "./check %s --tier thorough" % pid,
          "evidence_file": "/verif/evidence/%s.json" % pid, "replay_cmd_template": "./check %s --replay {path}" % pid, "engine": "sa",
          "level_claimed": {"category": c["level"], "text": c["text"], "design_ref": c["ref"]}, "level_note": c["note"], "technique": c["technique"]})
    else:
        m["not_applicable"].append({"property_id": pid, "reason": NA_REASON})
json.dump(m, open(os.path.join(HERE, "MANIFEST.json"), "w"), indent=1)
print("checks:", [c["property_id"] for c in m["checks"]], "n/a:", len(m["not_applicable"]))
