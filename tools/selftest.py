#!/usr/bin/env python3
"""Two-way self test of the checkers, on scratch worktrees of /repo (never /repo itself):
  selftest/mutants/*.diff, seeded/*/patch.diff  -> at least one of the owning checks must report a VIOLATION
  selftest/preserving/*.diff                    -> every owning check must stay silent (exit 0)
  --cross: every mutant/seed applied on top of every preserving refactoring of the same file (where the patches compose) must still fire
  --combos N: N random combinations of up to 8 preserving variants applied together, all 20 checks must stay silent
  --firing: only the cases that must fire (mutants and seeds)
usage: tools/selftest.py [-j N] [--cross] [--firing] [--combos N] [pattern]"""
import glob, json, os, re, subprocess, sys, tempfile, shutil
from concurrent.futures import ThreadPoolExecutor

VERIF = os.path.dirname(os.path.dirname(os.path.abspath(__file__)))
EXTRA = {"c03_index_nonull": ["C03", "C05"], "c13_swap_pop_linear": ["C13", "C14"], "c13_sorted_keys": ["C13", "C14"], "c02_cstyle_static_cast": ["C02"], "c15_count_idiom": ["C15"], "c14_erase_remove": ["C14", "C18", "C04"], "c13_key_helper": ["C13", "C14", "C18"], "c20_opaque_memcpy": ["C20", "C07"], "c13_manual_find": ["C13", "C14", "C18"], "c16_binop_inline": ["C16", "C05", "C01", "C17"], "c02_foreign_store": ["C02"], "c13_manual_nocheck": ["C13"], "c05_named_stride": ["C05", "C03", "C07", "C10", "C17"]}
SEED_CHECKS = {"C03-a": ["C17"], "C07-a": ["C06"], "C14-a": ["C14", "C04"], "C18-a": ["C18", "C14"], "C08-a": ["C08", "C04"], "C04-a": ["C04", "C08"], "C07-b": ["C07"], "C08-b": ["C08"], "C11-b": ["C11"], "C13-b": ["C13"], "C08-c": ["C08"], "C12-c": ["C12"], "C07-c": ["C07", "C05"]}


def cases(pattern):
    out = []
    for p in sorted(glob.glob(os.path.join(VERIF, "selftest/mutants/*.diff"))):
        name = os.path.basename(p)[:-5]
        out.append((name, p, EXTRA.get(name, [name[:3].upper()]), True))
    for p in sorted(glob.glob(os.path.join(VERIF, "selftest/preserving/*.diff"))):
        name = os.path.basename(p)[:-5]
        allc = ["C%02d" % i for i in range(1, 21)]
        if name.startswith(("ref_R", "ref_T", "ref_U")):
            # refactorings written by independent sub-agents, one library area each: the checks whose rules read that area
            area = {"1": ["C01", "C03", "C05", "C16", "C17"], "2": ["C03", "C07", "C09", "C10"], "3": ["C02", "C04", "C06", "C07", "C08", "C20"], "4": ["C02", "C03", "C04", "C14", "C18"],
                    "5": ["C11", "C12", "C13", "C14", "C15", "C18"], "6": ["C04", "C11", "C12", "C13", "C18"], "7": ["C04", "C08", "C10", "C20"], "8": ["C01", "C05", "C14", "C16", "C19"]}[name[5]]
            out.append((name, p, area, False))
            continue
        if name.startswith("ref_V"):
            # fifth round (areas chosen after seeding waves 5 and 6: where the newest rules live)
            area = {"1": ["C01", "C02", "C03", "C05", "C06", "C16", "C17"], "2": ["C01", "C02", "C03", "C06", "C07", "C20"], "3": ["C02", "C04", "C06", "C07", "C08", "C11", "C20"],
                    "4": ["C03", "C07", "C09", "C10"], "5": ["C02", "C04", "C13", "C14", "C18"], "6": ["C03", "C04", "C10", "C14", "C15", "C18"],
                    "7": ["C04", "C11", "C12", "C13", "C18", "C19"], "8": ["C02", "C11", "C12", "C13", "C18", "C19"]}[name[5]]
            out.append((name, p, area, False))
            continue
        if name.startswith("ref_S"):
            # second round (structurally deeper refactorings; the areas overlap more)
            area = {"1": ["C01", "C03", "C05", "C07", "C09", "C16", "C17"], "2": ["C03", "C05", "C07", "C09", "C10", "C17"], "3": ["C02", "C04", "C05", "C06", "C07", "C08", "C17", "C20"],
                    "4": ["C02", "C03", "C04", "C11", "C13", "C14", "C15", "C18"], "5": ["C11", "C12", "C13", "C14", "C15", "C18", "C19"], "6": ["C04", "C11", "C12", "C13", "C18", "C19"],
                    "7": ["C04", "C08", "C09", "C10", "C11", "C12", "C13", "C14", "C18", "C19", "C20"], "8": ["C01", "C03", "C05", "C14", "C15", "C16", "C17", "C19"]}[name[5]]
            out.append((name, p, area, False))
            continue
        out.append((name, p, allc if name.startswith("all_") else EXTRA.get(name, [name[:3].upper()]), False))
    for d in sorted(glob.glob(os.path.join(VERIF, "seeded/*/"))):
        sid = os.path.basename(d.rstrip("/"))
        meta = json.load(open(os.path.join(d, "meta.json")))
        out.append(("seed:" + sid, os.path.join(d, "patch.diff"), SEED_CHECKS.get(sid, meta.get("checks") or [meta["property"]]), True))
    return [c for c in out if pattern in c[0]]


def files_of(patch):
    return {l.split()[2][2:] for l in open(patch, errors="replace") if l.startswith("diff --git")}


def cross_cases(pattern):
    """seeded change / mutant applied ON TOP OF a behaviour-preserving variant that touches the same file: the owning checks must
    still report it (detection has to be invariant under refactoring).  Pairs whose patches do not compose are skipped."""
    base = cases("")
    firing = [c for c in base if c[3]]
    quiet = [c for c in base if not c[3] and (c[0].startswith("ref_") or c[0].startswith("all_"))]
    out = []
    for n1, p1, ch1, _ in firing:
        for n2, p2, _, _ in quiet:
            if files_of(p1) & files_of(p2):
                out.append(("%s+%s" % (n1, n2), [p2, p1], ch1, True))
    return [c for c in out if pattern in c[0]]


def combo_cases(n, seed=20260927):
    """n random combinations of up to 8 behaviour-preserving variants applied together (greedily: a variant that does not compose
    with those already applied is left out); every check must stay silent on the combination"""
    import random
    rnd = random.Random(seed)
    quiet = sorted(c[1] for c in cases("") if not c[3])
    allc = ["C%02d" % i for i in range(1, 21)]
    out = []
    for k in range(n):
        order = quiet[:]
        rnd.shuffle(order)
        out.append(("combo:%02d" % k, ("greedy", order, 8), allc, False))
    return out


def run_case(wt, case):
    name, patch, checks, must_fire = case
    if isinstance(patch, tuple) and patch[0] == "greedy":
        applied = []
        for pt in patch[1]:
            if len(applied) >= patch[2]:
                break
            if subprocess.run(["git", "-C", wt, "apply", pt], capture_output=True).returncode == 0:
                applied.append(os.path.basename(pt)[:-5])
        name = name + " [" + " ".join(applied) + "]"
        patch = []
    for i_, pt in enumerate(patch if isinstance(patch, list) else [patch]):
        r = subprocess.run(["git", "-C", wt, "apply", pt], capture_output=True, text=True)
        if r.returncode != 0:
            subprocess.run(["git", "-C", wt, "checkout", "--", "."], capture_output=True)
            return name, ("skip" if i_ else "PATCH-DOES-NOT-APPLY"), r.stderr.strip()[:100].replace("\n", " ")
    try:
        fired, details = [], []
        for c in checks:
            env = dict(os.environ, VERIF_REPO=wt, VERIF_EVIDENCE_DIR=os.path.join(wt, "_evidence"))
            pr = subprocess.run([os.path.join(VERIF, "check"), c, "--tier", "quick"], capture_output=True, text=True, env=env)
            if pr.returncode == 1:
                fired.append(c)
                m = re.search(r"rule (\S+) at ([^(]+)", pr.stdout)
                details.append("%s:%s" % (c, m.group(1) if m else "?"))
            elif pr.returncode == 2:
                if isinstance(patch, list) and "TU has errors" in (pr.stdout + pr.stderr):
                    return name, "skip", "the composed tree does not compile"
                details.append("%s:ANALYSIS-BROKEN" % c)
        if must_fire:
            return name, ("ok" if fired else "MISSED"), " ".join(details)
        return name, ("ok" if not fired and not any("BROKEN" in d for d in details) else "FALSE-ALARM"), " ".join(details)
    finally:
        subprocess.run(["git", "-C", wt, "checkout", "--", "."], capture_output=True)


def main():
    args = sys.argv[1:]
    jobs = 4
    if args and args[0] == "-j":
        jobs = int(args[1]); args = args[2:]
    cross = bool(args and args[0] == "--cross")
    if cross:
        args = args[1:]
    firing_only = bool(args and args[0] == "--firing")
    if firing_only:
        args = args[1:]
    if args and args[0] == "--combos":
        cs = combo_cases(int(args[1]) if len(args) > 1 else 30)
    else:
        cs = (cross_cases if cross else cases)(args[0] if args else "")
        if firing_only:
            cs = [c for c in cs if c[3]]
    base = tempfile.mkdtemp(prefix="verif_selftest_")
    wts = []
    try:
        for i in range(jobs):
            wt = os.path.join(base, "wt%d" % i)
            subprocess.check_call(["git", "-C", "/repo", "worktree", "add", "-q", "--detach", wt, "HEAD"])
            wts.append(wt)
        chunks = [cs[i::jobs] for i in range(jobs)]
        import threading
        lock = threading.Lock()
        counts = {"bad": 0, "skip": 0}
        def work(i):
            for c in chunks[i]:
                name, verdict, det = run_case(wts[i], c)
                with lock:
                    if verdict != "skip":
                        print("%-34s %-12s %s" % (name, verdict, det), flush=True)
                    else:
                        counts["skip"] += 1
                    if verdict not in ("ok", "skip"):
                        counts["bad"] += 1
        with ThreadPoolExecutor(max_workers=jobs) as ex:
            list(ex.map(work, range(jobs)))
        bad = counts["bad"]
        if counts["skip"]:
            print("(%d pairs skipped: the patches do not compose)" % counts["skip"])
        print("selftest: %d cases, %d not ok" % (len(cs), bad))
        return 1 if bad else 0
    finally:
        for wt in wts:
            subprocess.run(["git", "-C", "/repo", "worktree", "remove", "--force", wt], capture_output=True)
        shutil.rmtree(base, ignore_errors=True)


if __name__ == "__main__":
    sys.exit(main())
