#!/bin/sh
# run every claimed check (quick tier by default) and print the summary line of each
cd "$(dirname "$0")/.."
for c in $(python3 -c "import json;print(' '.join(x['property_id'] for x in json.load(open('MANIFEST.json'))['checks']))"); do
  ./check $c --tier ${TIER:-quick} > /tmp/verif_run_$c.log 2>&1; rc=$?
  echo "rc=$rc $(grep -E "obligations|ANALYSIS-BROKEN" /tmp/verif_run_$c.log | tail -1 | cut -c1-200)"
  grep -E "^VIOLATION" /tmp/verif_run_$c.log | head -3
done
